"""Spike 2: proc_macro2 / quote / syn token model."""
import re
from engine import *
from models_std import *
import models_std

class TS:
    def __init__(self, t=None): self.t = t if t is not None else []
    def clone(self): return TS(list(self.t))
    def eq(self, o): return tok_str(self) == tok_str(o)
    def __repr__(self): return "TS<%s>" % tok_str(self)
class IdentV:
    def __init__(self, name): self.name = name
    def clone(self): return IdentV(self.name)
    def eq(self, o): return self.name == o.name
    def sort_key(self): return (0, self.name)
    def display(self): return [self.name]
    def __repr__(self): return "Ident(%s)" % self.name
class SynV:
    """opaque parsed syntax node; prints back its tokens"""
    def __init__(self, kind, toks): self.kind = kind; self.toks = toks
    def clone(self): return SynV(self.kind, list(self.toks))
    def eq(self, o): return tok_str(TS(self.toks)) == tok_str(TS(o.toks))
    def sort_key(self): return (0, tok_str(TS(self.toks)))
    def __repr__(self): return "%s<%s>" % (self.kind, tok_str(TS(self.toks)))
class PunctV(VecV):
    __slots__ = ("sep", "trailing")
    def __init__(self, items, sep): self.items = items; self.sep = sep; self.trailing = False
    def clone_with(self, f):
        p = PunctV([f(i) for i in self.items], self.sep); p.trailing = self.trailing; return p

def tok_str(ts):
    out = []; joint = False
    for i, t in enumerate(ts.t):
        if i and not joint: out.append(" ")
        joint = False
        if t[0] == "i": out.append(str(t[1]))
        elif t[0] == "l": out.append(str(t[1]))
        elif t[0] == "p": out.append(t[1]); joint = t[2]
        elif t[0] == "g":
            o, c = {"Parenthesis": ("(", ")"), "Brace": ("{ ", "}"), "Bracket": ("[", "]"), "None": ("", "")}[t[1]]
            inner = tok_str(t[2])
            out.append(o + inner + (" " if t[1] == "Brace" and t[2].t else "") + c)
    return "".join(out)

def lex(s):
    """tiny lexer for path-like strings used with syn::parse_str"""
    toks = []; i = 0
    while i < len(s):
        c = s[i]
        if c.isspace(): i += 1
        elif c.isalpha() or c == "_":
            j = i
            while j < len(s) and (s[j].isalnum() or s[j] == "_"): j += 1
            toks.append(("i", s[i:j])); i = j
        elif s.startswith("::", i): toks += [("p", ":", True), ("p", ":", False)]; i += 2
        elif c in "<>,&'": toks.append(("p", c, False)); i += 1
        else: raise ValueError("lex " + s)
    return toks

KEYWORDS = set("as break const continue crate else enum extern false fn for if impl in let loop match mod move mut pub ref return self Self static struct super trait true type unsafe use where while async await dyn abstract become box do final macro override priv typeof unsized virtual yield try".split())

PUNCTS = {"colon2": "::", "comma": ",", "lt": "<", "gt": ">", "pound": "#", "semi": ";", "colon": ":", "eq": "=", "and": "&", "star": "*",
          "rarrow": "->", "fat_arrow": "=>", "dot": ".", "bang": "!", "question": "?", "underscore": "_", "or": "|", "add": "+", "sub": "-"}
@model(r"^quote::__private::push_(\w+)$")
def _(eng, m, g, a):
    ts = deref(a[0]); k = m.group(1)
    if k == "ident": ts.t.append(("i", deref(a[1]).concrete())); return UNIT
    if k == "group": ts.t.append(("g", a[1].name, a[2])); return UNIT
    if k == "underscore": ts.t.append(("i", "_")); return UNIT
    if k == "lifetime": ts.t += [("p", "'", True), ("i", deref(a[1]).concrete()[1:])]; return UNIT
    p = PUNCTS[k]
    for j, ch in enumerate(p): ts.t.append(("p", ch, j < len(p) - 1))
    return UNIT
@model(r"^quote::__private::parse$")
def _(eng, m, g, a):
    deref(a[0]).t.append(("l", deref(a[1]).concrete())); return UNIT
@model(r"^TokenStream::new$|^proc_macro2::TokenStream::new$|^<TokenStream as (std::default::)?Default>::default$")
def _(eng, m, g, a): return TS()
models_std.DEFAULT_HOOKS.append((re.compile(r"^(proc_macro2::)?TokenStream$"), lambda eng: TS()))
@model(r"^<TokenStream as Extend<.*>>::extend$")
def _(eng, m, g, a):
    src = deref(a[1])
    deref(a[0]).t += src.t if isinstance(src, TS) else [x for x in drain(eng, as_iter(eng, a[1]))]
    return UNIT
@model(r"^<TokenStream as ToString>::to_string$")
def _(eng, m, g, a): return StrV([tok_str(deref(a[0]))])
@model(r"^<proc_macro2::Ident as ToString>::to_string$")
def _(eng, m, g, a): return StrV([deref(a[0]).name])
@model(r"^proc_macro2::Literal::(\w+)_(unsuffixed|suffixed)$")
def _(eng, m, g, a):
    v = a[0]
    txt = (str(v.v) if not v.sym() else ("lit", v))
    if m.group(2) == "suffixed": txt = txt + m.group(1) if isinstance(txt, str) else ("lit", v, m.group(1))
    return Agg("Literal", [txt])
@model(r"^proc_macro2::Span::call_site$|^Span::call_site$")
def _(eng, m, g, a): return UNIT
@model(r"^proc_macro2::Ident::new$")
def _(eng, m, g, a): return IdentV(deref(a[0]).concrete())
@model(r"^quote::__private::mk_ident$")
def _(eng, m, g, a): return IdentV(deref(a[0]).concrete())
@model(r"^quote::__private::IdentFragmentAdapter::span$")
def _(eng, m, g, a): return none()
@model(r"^<proc_macro2::Ident as (Ord|PartialOrd)>::(cmp|partial_cmp)$")
def _(eng, m, g, a):
    x, y = deref(a[0]).name, deref(a[1]).name
    o = En("Ordering", 0 if x < y else (1 if x == y else 2), "Less" if x < y else ("Equal" if x == y else "Greater"), [])
    return o if m.group(2) == "cmp" else some(o)

SYN_TOKENS = {"PathSep": "::", "Comma": ",", "Colon": ":", "Semi": ";", "Lt": "<", "Gt": ">", "Plus": "+", "Minus": "-", "Eq": "=", "And": "&", "Star": "*", "Not": "!", "Dot": ".",
              "Pound": "#", "Question": "?", "RArrow": "->", "FatArrow": "=>", "Underscore": "_", "Or": "|", "At": "@", "Dollar": "$",
              "Pub": "pub", "Struct": "struct", "Enum": "enum", "Mod": "mod", "Use": "use", "Super": "super", "Crate": "crate", "SelfValue": "self", "SelfType": "Self",
              "Fn": "fn", "Impl": "impl", "For": "for", "Where": "where", "Const": "const", "Static": "static", "Mut": "mut", "Ref": "ref", "Type": "type", "Trait": "trait", "As": "as", "Dyn": "dyn", "Unsafe": "unsafe", "Let": "let", "In": "in"}
class SynTokV:
    """a value of one of syn's token types (`Token![pub]`, `Token![::]`, ...): it prints as its fixed text"""
    def __init__(self, kind): self.kind = kind; self.text = SYN_TOKENS[kind]
    def clone(self): return self
    def eq(self, o): return True
    def __repr__(self): return "Token![%s]" % self.text
def to_tokens(eng, v, ts):
    x = deref(v)
    if isinstance(x, SynTokV):
        if x.text[0].isalpha() or x.text == "_": ts.t.append(("i", x.text))
        else:
            for j, ch in enumerate(x.text): ts.t.append(("p", ch, j < len(x.text) - 1))
    elif isinstance(x, IdentV): ts.t.append(("i", x.name))
    elif isinstance(x, TS): ts.t += x.t
    elif isinstance(x, SynV): ts.t += x.toks
    elif isinstance(x, PunctV):
        for i, it in enumerate(x.items):
            if i:
                for j, ch in enumerate(x.sep): ts.t.append(("p", ch, j < len(x.sep) - 1))
            to_tokens(eng, it, ts)
    elif isinstance(x, En) and x.enum == "Option":
        if x.idx == 1: to_tokens(eng, x.f[0], ts)
    elif isinstance(x, En) and x.enum == "Type": to_tokens(eng, x.f[0], ts)
    elif isinstance(x, Agg) and x.tag == "RepInterp": to_tokens(eng, x.f[0], ts)
    elif isinstance(x, Agg) and x.tag == "Literal": ts.t.append(("l", x.f[0]))
    elif isinstance(x, Agg) and x.tag == "Group" and len(x.f) == 2 and isinstance(x.f[0], str): ts.t.append(("g", x.f[0], x.f[1]))
    elif isinstance(x, Agg) and x.tag == "Punct" and len(x.f) == 2 and isinstance(x.f[0], str): ts.t.append(("p", x.f[0], x.f[1]))
    elif isinstance(x, En) and x.enum == "TokenTree": to_tokens(eng, x.f[0], ts)
    elif isinstance(x, Sc):
        if x.ty == "bool":
            if isinstance(x.v, bool): ts.t.append(("i", "true" if x.v else "false"))
            else: ts.t.append(("i", ("boollit", x)))
        elif x.ty == "char":
            if x.sym(): ts.t.append(("l", ("charlit", x)))
            else:
                c = chr(x.v); esc = {"'": "\\'", "\\": "\\\\", "\n": "\\n", "\t": "\\t", "\r": "\\r"}.get(c, c)
                ts.t.append(("l", "'" + esc + "'"))
        elif x.sym(): ts.t.append(("l", ("lit", x, x.ty)))
        else:
            v = x.v; bits = INT_BITS[x.ty]
            if x.ty[0] == "i" and v >> (bits - 1):      # proc_macro2 prints a negative literal as `-` followed by the magnitude
                ts.t.append(("p", "-", False)); v = (1 << bits) - v
            ts.t.append(("l", str(v) + x.ty))
    elif isinstance(x, StrV):
        s = x.concrete()
        ts.t.append(("l", '"' + s.replace("\\", "\\\\").replace('"', '\\"') + '"' if s is not None else ("strlit", x)))
    elif isinstance(x, (Agg, En)):
        tag = x.tag if isinstance(x, Agg) else x.enum
        eng.call(f"<{tag} as ToTokens>::to_tokens", [], [Slot([x], 0), Slot([ts], 0)])
    else: raise Unmodelled(f"to_tokens {x!r}")

@model(r"^<.* as ToTokens>::to_tokens$")
def _(eng, m, g, a): to_tokens(eng, a[0], deref(a[1])); return UNIT
@model(r"^<.* as ToTokens>::to_token_stream$")
def _(eng, m, g, a):
    ts = TS(); to_tokens(eng, a[0], ts); return ts
@model(r"^<.* as quote::__private::ext::Rep(Iterator|AsIterator)Ext(<.*>)?>::quote_into_iter$")
def _(eng, m, g, a): return Agg("()", [as_iter(eng, a[0]), Agg("HasIterator", [])])
@model(r"^<quote::__private::(ThereIsNoIteratorInRepetition|HasIterator) as (std::ops::)?BitOr<.*>>::bitor$")
def _(eng, m, g, a): return Agg("HasIterator", [])

@model(r"^syn::__private::parse$|^syn::parse_quote::parse$")
def _(eng, m, g, a):
    kind = g[0].split("::")[-1]; ts = deref(a[0])
    if kind == "Ident": return IdentV(ts.t[0][1])
    return SynV(kind, list(ts.t))
@model(r"^syn::parse_str$")
def _(eng, m, g, a):
    kind = g[0].split("::")[-1]; s = deref(a[0]).concrete()
    if s is None: raise Unmodelled("parse_str on symbolic string")
    try: toks = lex(s)
    except ValueError: return err(Agg("syn::Error", [StrV(["lex error"])]))
    if kind == "Ident":
        if len(toks) != 1 or toks[0][0] != "i" or toks[0][1] in KEYWORDS: return err(Agg("syn::Error", [StrV(["not an ident"])]))
        return ok(IdentV(toks[0][1]))
    return ok(SynV(kind, toks))
@model(r"^<PathSegment as From<proc_macro2::Ident>>::from$")
def _(eng, m, g, a): return SynV("PathSegment", [("i", a[0].name)])
@model(r"^syn::punctuated::Punctuated::insert$")
def _(eng, m, g, a): deref(a[0]).items.insert(a[1].v, a[2]); return UNIT
models_std.COLLECT_HOOKS.append((re.compile(r"^(syn::punctuated::)?Punctuated<PathSegment"), lambda eng, it, t: PunctV(drain(eng, it), "::")))
models_std.COLLECT_HOOKS.append((re.compile(r"^(proc_macro2::)?TokenStream$"), lambda eng, it, t: TS([tok for x in drain(eng, it) for tok in deref(x).t])))

# ---- scale-info helpers (framework: interpreted from scale-info's own MIR)
@model(r"^scale_info::Path::namespace$|^Path::<.*>::namespace$")
def _(eng, m, g, a):
    segs = deref(a[0]).f[0].items
    return Slot([VecV(segs[:-1] if segs else [])], 0)
@model(r"^scale_info::Path::ident$")
def _(eng, m, g, a):
    segs = deref(a[0]).f[0].items
    return some(clone_val(eng, segs[-1])) if segs else none()
@model(r"^scale_info::Path::is_empty$")
def _(eng, m, g, a): return B(len(deref(a[0]).f[0].items) == 0)
@model(r"^PortableRegistry::resolve$")
def _(eng, m, g, a):
    types = deref(a[0]).f[0].items; i = a[1]
    if i.sym():
        k = eng.choose([(j, i.v == j) for j in range(len(types))] + [(-1, z3.UGE(i.v, len(types)))])
        return some(Slot(types[k].f, 1)) if k >= 0 else none()
    return some(Slot(types[i.v].f, 1)) if i.v < len(types) else none()
@model(r"^<scale_info::Path<.*> as ToString>::to_string$|^<scale_info::Path as ToString>::to_string$")
def _(eng, m, g, a):
    out = []
    for i, s in enumerate(deref(a[0]).f[0].items):
        if i: out.append("::")
        out += s.p
    return StrV(out)

@model(r"^<(?:syn::token::|token::)?(" + "|".join(SYN_TOKENS) + r") as (?:std::default::)?Default>::default$")
def _(eng, m, g, a): return SynTokV(m.group(1))
@model(r"^<(?:syn::token::|token::)?(" + "|".join(SYN_TOKENS) + r") as (?:quote::)?ToTokens>::to_tokens$")
def _(eng, m, g, a): to_tokens(eng, a[0], deref(a[1])); return UNIT
