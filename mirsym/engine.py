"""Spike 2: symbolic MIR interpreter core (pre-parsed statements, tagged values, model registry)."""
import re, time, os, sys
import z3
from mirparse import parse_mir, split_top

INT_BITS = {"i8":8,"i16":16,"i32":32,"i64":64,"i128":128,"isize":64,"u8":8,"u16":16,"u32":32,"u64":64,"u128":128,"usize":64,"char":32,"bool":1}

# ------------------------------------------------------------------ values
class Sc:
    __slots__ = ("ty", "v")
    def __init__(self, ty, v): self.ty = ty; self.v = v
    def __repr__(self): return f"{self.v}:{self.ty}"
    def sym(self): return not isinstance(self.v, (int, bool))
class Agg:
    __slots__ = ("tag", "f")
    def __init__(self, tag, f): self.tag = tag; self.f = f
    def __repr__(self): return f"{self.tag}{self.f}"
class En:
    __slots__ = ("enum", "idx", "name", "f")
    def __init__(self, enum, idx, name, f): self.enum = enum; self.idx = idx; self.name = name; self.f = f
    def __repr__(self): return f"{self.enum}::{self.name}{self.f}"
class Slot:
    __slots__ = ("c", "k")
    def __init__(self, c, k): self.c = c; self.k = k
    def get(self): return self.c[self.k]
    def set(self, v): self.c[self.k] = v
    def __repr__(self): return f"&{self.c[self.k]!r}"
class StrV:
    __slots__ = ("p",)
    def __init__(self, p=None): self.p = p if p is not None else []
    def __repr__(self): return f"Str{self.p}"
    def concrete(self):
        return "".join(self.p) if all(isinstance(x, str) for x in self.p) else None
class VecV:
    __slots__ = ("items",)
    def __init__(self, items=None): self.items = items if items is not None else []
    def __repr__(self): return f"Vec{self.items}"
class FnPtr:
    def __init__(self, name): self.name = name
class RcV:
    def __init__(self, v): self.cell = [v]
class MapV:
    def __init__(self, kind): self.kind = kind; self.e = []   # list of [k, v]
class SetV:
    def __init__(self, kind): self.kind = kind; self.items = []
class Cell:
    def __init__(self, v=None): self.c = [v]
UNIT = Agg("()", [])
def none(): return En("Option", 0, "None", [])
def some(x): return En("Option", 1, "Some", [x])
def ok(x): return En("Result", 0, "Ok", [x])
def err(x): return En("Result", 1, "Err", [x])
def B(v): return Sc("bool", v)
def discr(v):
    if v.enum == "Ordering": return Sc("i8", (v.idx - 1) & 0xFF)
    return Sc("isize", v.idx)
def deref(x):
    while True:
        if isinstance(x, Slot): x = x.get()
        elif isinstance(x, Agg) and x.tag == "Box": x = x.f[0].f[0].get()
        else: return x
def mk_box(v): return Agg("Box", [Agg("Unique", [Slot([v], 0), UNIT]), UNIT])

VARIANTS = {}   # (enum, variant) -> idx
def add_enum(name, variants):
    for i, v in enumerate(variants): VARIANTS[(name, v)] = i
add_enum("Option", ["None", "Some"]); add_enum("Result", ["Ok", "Err"]); add_enum("ControlFlow", ["Continue", "Break"])
add_enum("TypeDef", ["Composite", "Variant", "Sequence", "Array", "Tuple", "Primitive", "Compact", "BitSequence"])
add_enum("TypeDefPrimitive", ["Bool","Char","Str","U8","U16","U32","U64","U128","U256","I8","I16","I32","I64","I128","I256"])
add_enum("Delimiter", ["Parenthesis", "Brace", "Bracket", "None"])
add_enum("Type", ["Array","BareFn","Group","ImplTrait","Infer","Macro","Never","Paren","Path","Ptr","Reference","Slice","TraitObject","Tuple","Verbatim"])
add_enum("PathArguments", ["None", "AngleBracketed", "Parenthesized"])
add_enum("GenericArgument", ["Lifetime", "Type", "Const", "AssocType", "AssocConst", "Constraint"])
add_enum("btree_map::Entry", ["Vacant", "Occupied"]); add_enum("hash_map::Entry", ["Occupied", "Vacant"])
add_enum("Cow", ["Borrowed", "Owned"])

def scan_enums(root):
    for dp, dn, fn in os.walk(root):
        for f in fn:
            if not f.endswith(".rs") or "/tests" in dp: continue
            src = open(os.path.join(dp, f)).read()
            src = re.sub(r"//[^\n]*", "", src)
            for m in re.finditer(r"\benum\s+(\w+)[^{;]*\{", src):
                i = m.end(); d = 1; cur = []; vs = []; tok = ""
                body_start = i
                while i < len(src) and d > 0:
                    c = src[i]
                    if c in "{([": d += 1
                    elif c in "})]": d -= 1
                    i += 1
                body = src[body_start:i-1]
                body = re.sub(r"//[^\n]*", "", body); body = re.sub(r"#\[[^\]]*\]", "", body)
                d = 0; item = ""
                for c in body + ",":
                    if c in "{([": d += 1
                    if c in "})]": d -= 1
                    if c == "," and d == 0:
                        mm = re.match(r"\s*(\w+)", item)
                        if mm: vs.append(mm.group(1))
                        item = ""
                    else: item += c
                add_enum(m.group(1), vs)

STD_TRAITS = set("Clone Copy PartialEq Eq PartialOrd Ord Hash Debug Display ToTokens IntoIterator Iterator DoubleEndedIterator ExactSizeIterator Default From Into TryFrom TryInto AsRef AsMut Borrow BorrowMut Deref DerefMut ToString ToOwned Fn FnMut FnOnce Extend FromIterator Index IndexMut Add Sub Not Neg Drop Spanned Write Try FromResidual".split())
GENERIC_FNS = {}   # fn name (last segment) -> list of declared type parameter names (scanned from the sources)
def scan_generic_fns(root):
    for dp, dn, fnames in os.walk(root):
        for f in fnames:
            if not f.endswith(".rs") or "/tests" in dp: continue
            src = open(os.path.join(dp, f)).read()
            src = re.sub(r"//[^\n]*", "", src)
            for m in re.finditer(r"\bfn\s+(\w+)\s*<", src):
                i = m.end(); d = 1; j = i
                while j < len(src) and d > 0:
                    if src[j] == "<": d += 1
                    elif src[j] == ">" and src[j-1] != "-": d -= 1
                    j += 1
                params = []; depth = 0; cur = ""
                for c in src[i:j-1] + ",":
                    if c in "<([": depth += 1
                    if c in ">)]": depth -= 1
                    if c == "," and depth == 0:
                        p = cur.strip(); cur = ""
                        if p and not p.startswith("'") and not p.startswith("const "): params.append(re.split(r"[:=\s]", p)[0])
                    else: cur += c
                if params: GENERIC_FNS[m.group(1)] = params
class Panic(Exception): pass
class Infeasible(Exception): pass
class Unmodelled(Exception): pass
class Pass(Exception):
    """raised by a model to decline a call (the next matching model is tried)"""
class Inconclusive(Exception): pass
class Cut(Exception):
    def __init__(self, labels): self.labels = labels

def strip_turbofish(name):
    """returns (name without ::<..> turbofish, list of turbofish strings)"""
    out = []; gens = []; i = 0; n = len(name)
    while i < n:
        if name.startswith("::<", i):
            d = 0; j = i + 2
            if name.startswith("::<impl", i):
                dd = 0; jj = i + 2
                while jj < n:
                    if name[jj] == "<": dd += 1
                    elif name[jj] == ">" and name[jj-1] != "-":
                        dd -= 1
                        if dd == 0: break
                    jj += 1
                prev = "".join(out).split("::")[-1]
                if jj != n - 1 and not (prev[:1].isupper()):
                    out.append(name[i]); i += 1; continue
            while j < n:
                if name[j] == "<": d += 1
                elif name[j] == ">" and name[j-1] != "-":
                    d -= 1
                    if d == 0: break
                j += 1
            gens.append(name[i+3:j]); i = j + 1
        else:
            out.append(name[i]); i += 1
    return "".join(out), gens

def parse_call(rhs):
    d = 0; i = 0; n = len(rhs)
    while i < n:
        c = rhs[i]
        if c == "<": d += 1
        elif c == ">" and rhs[i-1] != "-": d -= 1
        elif c == "(" and d == 0: break
        i += 1
    return rhs[:i], rhs[i+1:-1]

def deepcopy_val(v):
    if isinstance(v, Agg): return Agg(v.tag, [deepcopy_val(x) for x in v.f])
    if isinstance(v, En): return En(v.enum, v.idx, v.name, [deepcopy_val(x) for x in v.f])
    return v

MODELS = []
_STD_MOD = re.compile(r"(?<![\w:])(?:std|core|alloc)::(?:\w+::)*(?=[A-Z])")
def name_variants(n):
    out = [n]
    m = re.match(r"^(core|std|alloc)::(.*)$", n)
    if m: out.append(m.group(2))
    else: out += ["core::" + n, "std::" + n]
    s = _STD_MOD.sub("", n)          # `std::vec::Vec::x` / `<std::string::String as From<char>>::from` -> the short names most models use
    if s != n: out.append(s)
    return out
def find_models(n):
    """all models matching the callee name (or a variant with/without the crate prefix), in registration order"""
    res = []
    for v in name_variants(n):
        for rx, fn in MODELS:
            mm = rx.match(v)
            if mm and all(fn is not f for f, _ in res): res.append((fn, mm))
    return res
def dispatch_models(eng, n, g, args):
    ms = find_models(n)
    for fn, mm in ms:
        try: return fn(eng, mm, g, args)
        except Pass: continue
    eng.unmodelled.add(n)
    raise Unmodelled(n)
def model(pattern):
    rx = re.compile(pattern)
    def deco(fn): MODELS.append((rx, fn)); return fn
    return deco

class Frame:
    __slots__ = ("fn", "locals", "tysubst")
    def __init__(self, fn): self.fn = fn; self.locals = {}; self.tysubst = None

class Engine:
    def __init__(self, fns, src_root):
        self.fns = fns; self.src_root = src_root
        self.cache = {}
        self.nsteps = 0
        self.closure_index = {}
        for k, f in fns.items():
            if "{closure#" in k and f.args:
                m = re.search(r"\{closure@[^}]*\}", f.ltypes[f.args[0]])
                if m: self.closure_index[m.group(0)] = k
        self.depth = 0
        self.unmodelled = set()
        self.nqueries = 0; self.ndecisions = 0; self.solver_s = 0.0; self.total_paths = 0; self.cut_at = None; self.path_queries = 0; self.stack = []
        self.hash_order = 'insertion'; self.max_depth = 2000; self.max_steps = None; self.capture_pc = False; self.captured = []; self.pre_len = None

    # ---------------- paths
    def reset_path(self, prefix=()):
        self.decisions = list(prefix); self.dpos = 0; self.newalts = []
        self.solver = z3.Solver(); self.pc = []
        self.depth = 0; self.stack = []; self.cut_at = None
        self.path_queries = 0; self.rng_memo = {}
        self.max_path_steps_seen = max(getattr(self, "max_path_steps_seen", 0), getattr(self, "nsteps", 0) - getattr(self, "steps0", 0))
        self.steps0 = getattr(self, "nsteps", 0)

    def explore(self, mk_inputs, run, limit=None, prefix=()):
        """DFS over all decision sequences extending `prefix` (re-execution from the decision prefix).
        Returns ([(kind, decisions, result)], seconds); kind in ok/panic."""
        work = [list(prefix)]; results = []; t0 = time.time()
        while work:
            pre = work.pop()
            self.reset_path(pre)
            self.pre_len = None
            try:
                ctx = mk_inputs(self)
                self.cur_ctx = ctx; self.pre_len = len(self.pc)
                results.append(("ok", list(self.decisions), run(self, ctx)))
                self._capture()
            except Panic as e:
                self._capture()
                msg = str(e) + " @ " + " > ".join(f"{a.split('>::')[-1]}:{b}" for a, b in getattr(e, "mir_stack", [])[-6:])
                h = getattr(self, "on_panic", None)
                results.append(("panic", list(self.decisions), h(self, self.cur_ctx, msg) if h else msg))
                if "recursion budget exceeded" in msg:
                    self.total_paths += 1; break        # non-termination found in this work item: its siblings would only repeat it, slowly
            except Infeasible:
                pass
            self.total_paths += 1
            work.extend(self.newalts)
            if limit and len(results) >= limit: break
        return results, time.time() - t0

    def _capture(self):
        """remember (precondition, path condition) of the finished path as SMT-LIB2 text (for the partition obligation)"""
        if not getattr(self, "capture_pc", False) or self.pre_len is None: return
        def dump(cs):
            s = z3.Solver(); s.add(*cs) if cs else None
            return s.to_smt2()
        self.captured.append((dump(self.pc[:self.pre_len]), dump(self.pc)))

    def frontier(self, mk_inputs, run, target=64, max_rounds=100000):
        """Breadth-first expansion of decision prefixes until >= target open prefixes (for work partitioning).
        Returns a list of prefixes whose subtrees partition the whole path space."""
        open_ = [[]]; leaves = []
        rounds = 0
        while open_ and len(open_) + len(leaves) < target and rounds < max_rounds:
            rounds += 1
            pre = open_.pop(0)
            self.reset_path(pre); self.cut_at = len(pre)
            try:
                ctx = mk_inputs(self); self.cur_ctx = ctx
                run(self, ctx)
                leaves.append(pre)
            except Cut as c:
                for p in c.labels: open_.append(p)
            except Panic:
                leaves.append(pre)
            except Infeasible:
                pass
        self.cut_at = None
        return leaves + open_

    def assume(self, c): self.pc.append(c); self.solver.add(c)
    def feasible(self, c):
        self.nqueries += 1; self.path_queries += 1
        t = time.time()
        self.solver.push(); self.solver.add(c); r = self.solver.check(); self.solver.pop()
        self.solver_s += time.time() - t
        if r == z3.unknown: raise Inconclusive("solver returned unknown: " + self.solver.reason_unknown())
        return r == z3.sat
    def choose(self, options):
        if self.dpos < len(self.decisions):
            lab = self.decisions[self.dpos]; self.dpos += 1
            for l, c in options:
                if l == lab:
                    if c is not True: self.assume(c)
                    return l
            raise RuntimeError("replay mismatch: %r not in %r" % (lab, [l for l, _ in options]))
        feas = [(l, c) for l, c in options if c is True or self.feasible(c)]
        if not feas: raise Infeasible()
        if len(feas) == 1:
            # forced: not a decision point (keeps prefixes short)
            l, c = feas[0]
            if c is not True: self.assume(c)
            self.decisions.append(l); self.dpos += 1
            return l
        self.ndecisions += 1
        if self.cut_at is not None: raise Cut([self.decisions[:self.dpos] + [l] for l, _ in feas])
        for l, c in feas[1:]: self.newalts.append(self.decisions[:self.dpos] + [l])
        l, c = feas[0]
        self.decisions.append(l); self.dpos += 1
        if c is not True: self.assume(c)
        return l
    def model(self, extra=None):
        """a model of the current path condition (optionally with extra constraint), or None"""
        self.nqueries += 1
        self.solver.push()
        if extra is not None: self.solver.add(extra)
        r = self.solver.check()
        m = self.solver.model() if r == z3.sat else None
        self.solver.pop()
        if r == z3.unknown: raise Inconclusive("solver returned unknown")
        return m
    def holds(self, prop):
        """True iff prop is valid under the path condition (one solver query); prop may be a python bool"""
        if prop is True: return True
        if prop is False: return False
        return not self.feasible(z3.Not(prop))
    def branch(self, b):
        if isinstance(b, Sc): b = b.v
        if isinstance(b, bool): return b
        return self.choose([(True, b), (False, z3.Not(b))])

    # ---------------- parsing (cached)
    def parse_place(self, s):
        r = self.cache.get(("pl", s))
        if r is None: r = self._parse_place(s.strip()); self.cache[("pl", s)] = r
        return r
    def _parse_place(self, s):
        if s.startswith("(fake) "): s = s[7:]          # fake borrows (match guards)
        m = re.match(r"^_(\d+)$", s)
        if m: return [("local", int(m.group(1)))]
        if s.endswith("]"):
            k = s.rindex("[")
            return self._parse_place(s[:k]) + [("index", s[k+1:-1])]
        assert s[0] == "(" and s[-1] == ")", s
        inner = s[1:-1]
        if inner.startswith("*"): return self._parse_place(inner[1:]) + [("deref",)]
        # field projection `(place.N: Type)` first: the ascribed type may itself contain ` as ` (`<impl X as Trait>::Assoc`)
        d = 0
        for i, c in enumerate(inner):
            if c == "(": d += 1
            elif c == ")": d -= 1
            elif c == "." and d == 0:
                m2 = re.match(r"\.(\d+): ", inner[i:])
                if m2: return self._parse_place(inner[:i]) + [("field", int(m2.group(1)))]
        depth = 0
        for i in range(len(inner)-1, -1, -1):
            c = inner[i]
            if c in ")]": depth += 1
            elif c in "([": depth -= 1
            elif depth == 0 and inner.startswith(" as ", i):
                return self._parse_place(inner[:i]) + [("downcast", inner[i+4:])]
        raise ValueError("place? " + s)

    def place_slot(self, fr, s):
        steps = self.parse_place(s)
        slot = Slot(fr.locals, steps[0][1])
        for st in steps[1:]:
            k = st[0]
            if k == "deref":
                v = slot.get()
                if isinstance(v, Slot): slot = v
                elif isinstance(v, RcV): slot = Slot(v.cell, 0)
                elif isinstance(v, Cell): slot = Slot(v.c, 0)
                elif isinstance(v, Agg) and v.tag == "Box": slot = v.f[0].f[0]
                elif isinstance(v, (StrV, VecV)): pass        # &str / &[T] are represented by the data itself
                else: raise TypeError(f"deref of {v!r} in {s}")
            elif k == "field":
                v = slot.get()
                slot = Slot(v.f, st[1])
            elif k == "index":
                v = slot.get(); idx = self.operand(fr, "copy " + st[1]) if st[1].startswith("_") else None
                slot = Slot(v.items, idx.v if idx else int(st[1].split(" ")[0]))
        return slot

    def const(self, fr, c):
        c = c.strip()
        if c in ("true", "false"): return Sc("bool", c == "true")
        if c == "()": return UNIT
        m = re.match(r"^(-?\d+)_(\w+)$", c)
        if m: return Sc(m.group(2), int(m.group(1)) & ((1 << INT_BITS[m.group(2)]) - 1))
        if c[0] == "'" and c[-1] == "'":
            ch = c[1:-1]; ch = {"\\n": "\n", "\\t": "\t", "\\'": "'", "\\\\": "\\", "\\r": "\r"}.get(ch, ch)
            return Sc("char", ord(ch))
        if c[0] == '"': return StrV([eval(c)]) if "\\u{" not in c else StrV([c[1:-1]])
        if c.startswith('b"'): return Agg("bytes", [eval(c)])
        mp = re.search(r"::(promoted\[\d+\])$", c)
        if mp: return self.call(fr.fn.name + "::" + mp.group(1), [], [])
        m = re.match(r"^ZeroSized: (\{closure@[^}]*\})$", c)
        if m: return Agg(m.group(1), [])
        m = re.match(r"^ZeroSized: (.*)$", c)
        if m: return Agg("zst:" + m.group(1), [])
        segs = strip_turbofish(c)[0].split("::")
        if len(segs) >= 2 and (segs[-2], segs[-1]) in VARIANTS: return En(segs[-2], VARIANTS[(segs[-2], segs[-1])], segs[-1], [])
        # fn item used as value / named constant
        for k, f in self.fns.items():
            if f.is_const and (k == c or c.endswith("::" + k) or k.endswith("::" + c.split("::")[-1])):
                if f.blocks: return self.call(k, [], [])
                if getattr(f, "const_value", None): return self.const(fr, f.const_value)
        if c in self.fns or self.resolve_local(c): return FnPtr(c)
        return FnPtr(c)

    def operand(self, fr, s):
        s = s.strip()
        if s.startswith("copy "): return deepcopy_val(self.place_slot(fr, s[5:]).get())
        if s.startswith("move "): return self.place_slot(fr, s[5:]).get()
        if s.startswith("const "): return self.const(fr, s[6:])
        if re.match(r"^[<\w]", s): return FnPtr(s)      # fn item named directly
        raise ValueError("operand? " + s)

    # ---------------- scalar ops
    def zint(self, x, bits):
        return x if not isinstance(x, int) else z3.BitVecVal(x, bits)
    def binop(self, op, a, b):
        ty = a.ty; bits = INT_BITS[ty]; signed = ty[0] == "i"
        av, bv = a.v, b.v
        sym = a.sym() or b.sym()
        if sym:
            if ty == "bool":
                za = av if not isinstance(av, bool) else z3.BoolVal(av); zb = bv if not isinstance(bv, bool) else z3.BoolVal(bv)
            else: za, zb = self.zint(av, bits), self.zint(bv, bits)
        def sg(x): return x - (1 << bits) if signed and x >> (bits - 1) else x
        if op in ("Eq", "Ne"):
            r = (za == zb) if sym else (av == bv)
            if op == "Ne": r = z3.Not(r) if sym else not r
            return Sc("bool", r)
        if op in ("Lt", "Le", "Gt", "Ge"):
            if sym:
                f = {"Lt": (lambda x, y: x < y) if signed else z3.ULT, "Le": (lambda x, y: x <= y) if signed else z3.ULE,
                     "Gt": (lambda x, y: x > y) if signed else z3.UGT, "Ge": (lambda x, y: x >= y) if signed else z3.UGE}[op]
                return Sc("bool", f(za, zb))
            x, y = sg(av), sg(bv)
            return Sc("bool", {"Lt": x < y, "Le": x <= y, "Gt": x > y, "Ge": x >= y}[op])
        if op in ("AddWithOverflow", "SubWithOverflow"):
            if sym:
                r = za + zb if op[0] == "A" else za - zb
                ext = bits + 1
                if signed: xa, xb = z3.SignExt(1, za), z3.SignExt(1, zb)
                else: xa, xb = z3.ZeroExt(1, za), z3.ZeroExt(1, zb)
                wide = xa + xb if op[0] == "A" else xa - xb
                back = z3.SignExt(1, r) if signed else z3.ZeroExt(1, r)
                return Agg("()", [Sc(ty, r), Sc("bool", wide != back)])
            x = sg(av) + sg(bv) if op[0] == "A" else sg(av) - sg(bv)
            lo, hi = (-(1 << (bits-1)), (1 << (bits-1)) - 1) if signed else (0, (1 << bits) - 1)
            return Agg("()", [Sc(ty, x & ((1 << bits) - 1)), Sc("bool", not (lo <= x <= hi))])
        if op == "MulWithOverflow":
            if sym:
                r = za * zb
                if signed: wide = z3.SignExt(bits, za) * z3.SignExt(bits, zb); back = z3.SignExt(bits, r)
                else: wide = z3.ZeroExt(bits, za) * z3.ZeroExt(bits, zb); back = z3.ZeroExt(bits, r)
                return Agg("()", [Sc(ty, r), Sc("bool", wide != back)])
            x = sg(av) * sg(bv)
            lo, hi = (-(1 << (bits-1)), (1 << (bits-1)) - 1) if signed else (0, (1 << bits) - 1)
            return Agg("()", [Sc(ty, x & ((1 << bits) - 1)), Sc("bool", not (lo <= x <= hi))])
        mask = (1 << bits) - 1
        if op in ("Add", "Sub", "Mul", "BitAnd", "BitOr", "BitXor", "AddUnchecked", "SubUnchecked", "MulUnchecked"):
            o = op.replace("Unchecked", "")
            if ty == "bool":
                if sym: return Sc(ty, {"BitAnd": z3.And(za, zb), "BitOr": z3.Or(za, zb), "BitXor": z3.Xor(za, zb)}[o])
                return Sc(ty, {"BitAnd": av and bv, "BitOr": av or bv, "BitXor": av != bv}[o])
            if sym: return Sc(ty, {"Add": za + zb, "Sub": za - zb, "Mul": za * zb, "BitAnd": za & zb, "BitOr": za | zb, "BitXor": za ^ zb}[o])
            return Sc(ty, {"Add": av + bv, "Sub": av - bv, "Mul": av * bv, "BitAnd": av & bv, "BitOr": av | bv, "BitXor": av ^ bv}[o] & mask)
        if op in ("Div", "Rem"):
            if sym:
                if signed: r = (za / zb) if op == "Div" else z3.SRem(za, zb)
                else: r = z3.UDiv(za, zb) if op == "Div" else z3.URem(za, zb)
                return Sc(ty, r)
            x, y = sg(av), sg(bv)
            if y == 0: raise Panic("division by zero")
            q = abs(x) // abs(y) * (1 if (x >= 0) == (y >= 0) else -1)
            return Sc(ty, (q if op == "Div" else x - q * y) & mask)
        if op in ("Shl", "Shr", "ShlUnchecked", "ShrUnchecked"):
            sb = INT_BITS[b.ty]
            if sym:
                zb2 = self.zint(bv, sb)
                if sb < bits: zb2 = z3.ZeroExt(bits - sb, zb2)
                elif sb > bits: zb2 = z3.Extract(bits - 1, 0, zb2)
                zb2 = zb2 & (bits - 1)
                if op.startswith("Shl"): return Sc(ty, za << zb2)
                return Sc(ty, (za >> zb2) if signed else z3.LShR(za, zb2))
            sh = bv & (bits - 1)
            if op.startswith("Shl"): return Sc(ty, (av << sh) & mask)
            return Sc(ty, (sg(av) >> sh) & mask)
        if op == "Cmp":
            lt = self.binop("Lt", a, b).v; eq = self.binop("Eq", a, b).v
            if isinstance(lt, bool) and isinstance(eq, bool): c = -1 if lt else (0 if eq else 1)
            else:
                c = self.choose([(-1, lt if not isinstance(lt, bool) else z3.BoolVal(lt)), (0, eq if not isinstance(eq, bool) else z3.BoolVal(eq)),
                                 (1, z3.And(z3.Not(lt) if not isinstance(lt, bool) else z3.BoolVal(not lt), z3.Not(eq) if not isinstance(eq, bool) else z3.BoolVal(not eq)))])
            return En("Ordering", c + 1, ["Less", "Equal", "Greater"][c + 1], [])
        raise ValueError(op)

    # ---------------- rvalues
    def rvalue(self, fr, s):
        s = s.strip()
        if s.startswith("no_retag "): s = s[9:]
        m = re.match(r"^(.*) as (.*) \((PointerCoercion|IntToInt|Transmute|PtrToPtr|BoxDerefTransmute|IntToFloat|FloatToInt|FnPtrToPtr|PointerExposeProvenance|PointerWithExposedProvenance|Subtype)(.*)\)$", s)
        if m:
            if "ReifyFnPointer" in m.group(4) and not m.group(1).startswith(("copy ", "move ", "const ")): return FnPtr(m.group(1))
            v = self.operand(fr, m.group(1)); kind = m.group(3); ty = m.group(2)
            if kind == "IntToInt":
                bits = INT_BITS[ty]; sb = INT_BITS[v.ty]
                if v.sym():
                    x = v.v
                    if bits > sb: x = z3.SignExt(bits - sb, x) if v.ty[0] == "i" else z3.ZeroExt(bits - sb, x)
                    elif bits < sb: x = z3.Extract(bits - 1, 0, x)
                    return Sc(ty, x)
                x = v.v
                if v.ty[0] == "i" and x >> (sb - 1): x -= 1 << sb
                return Sc(ty, x & ((1 << bits) - 1))
            if "ReifyFnPointer" in m.group(4) or "ClosureFnPointer" in m.group(4): return v
            if isinstance(v, Agg) and v.tag in ("Unique", "NonNull") and v.f and isinstance(v.f[0], Slot): return v.f[0]
            return v
        if s.startswith(("copy ", "move ", "const ")): return self.operand(fr, s)
        mfk = re.match(r"^&(?:\(fake\)|fake(?: shallow| deep)?) (.*)$", s)
        if mfk: return self.place_slot(fr, mfk.group(1))       # fake borrows (match guards) read nothing
        if s.startswith("&mut "): return self.place_slot(fr, s[5:])
        if s.startswith("&raw "): return self.place_slot(fr, s.split(" ", 2)[2])
        if s.startswith("&"): return self.place_slot(fr, s[1:])
        m = re.match(r"^discriminant\((.*)\)$", s)
        if m:
            v = self.place_slot(fr, m.group(1)).get()
            return discr(v)
        m = re.match(r"^(Eq|Ne|Lt|Le|Gt|Ge|AddWithOverflow|SubWithOverflow|MulWithOverflow|AddUnchecked|SubUnchecked|MulUnchecked|ShlUnchecked|ShrUnchecked|Add|Sub|Mul|Div|Rem|BitAnd|BitOr|BitXor|Shl|Shr|Cmp)\((.*)\)$", s)
        if m:
            a, b = split_top(m.group(2))
            return self.binop(m.group(1), self.operand(fr, a), self.operand(fr, b))
        m = re.match(r"^Not\((.*)\)$", s)
        if m:
            a = self.operand(fr, m.group(1))
            if a.ty == "bool": return Sc("bool", (not a.v) if isinstance(a.v, bool) else z3.Not(a.v))
            return Sc(a.ty, (~a.v) & ((1 << INT_BITS[a.ty]) - 1) if not a.sym() else ~a.v)
        m = re.match(r"^Neg\((.*)\)$", s)
        if m:
            a = self.operand(fr, m.group(1))
            return Sc(a.ty, (-a.v) & ((1 << INT_BITS[a.ty]) - 1) if not a.sym() else -a.v)
        m = re.match(r"^PtrMetadata\((.*)\)$", s)
        if m:
            v = deref(self.operand(fr, m.group(1)))
            return Sc("usize", len(v.items))
        if s.startswith("(") and s.endswith(")"):
            return Agg("()", [self.operand(fr, x) for x in split_top(s[1:-1])])
        if s.startswith("[") and s.endswith("]"):
            return VecV([self.operand(fr, x) for x in split_top(s[1:-1])])
        m = re.match(r"^(\{closure@[^}]*\})(?: \{ (.*) \})?$", s)
        if m:
            fields = [self.operand(fr, part.split(": ", 1)[1]) for part in split_top(m.group(2))] if m.group(2) else []
            return Agg(m.group(1), fields)
        # Path { f: op, .. }  |  Path(op, ..)  |  Path
        m = re.match(r"^(.+?) \{ (.*) \}$", s)
        if m: path, ops, kind = m.group(1), [p.split(": ", 1)[1] for p in split_top(m.group(2))], "s"
        else:
            m = re.match(r"^(.+?) \{\s*\}$", s)
            if m: path, ops, kind = m.group(1), [], "s"
            else:
                path, args = parse_call(s) if s.endswith(")") else (s, None)
                ops = split_top(args) if args else []; kind = "t"
        name, _ = strip_turbofish(path)
        segs = name.split("::")
        vals = [self.operand(fr, o) for o in ops]
        if len(segs) >= 2:
            for en in (segs[-2], "::".join(segs[-3:-1])):
                if (en, segs[-1]) in VARIANTS: return En(en, VARIANTS[(en, segs[-1])], segs[-1], vals)
        if len(segs) == 1:
            cands = [k for k in VARIANTS if k[1] == segs[0]]
            if len(cands) == 1: return En(cands[0][0], VARIANTS[cands[0]], segs[0], vals)
        return Agg(segs[-1], vals)

    # ---------------- function resolution
    def impl_header(self, fname):
        m = re.search(r"<impl at ([^:]+):(\d+):(\d+): (\d+):(\d+)>", fname)
        if not m: return None
        key = m.group(0)
        if key not in self.cache:
            path = m.group(1)
            full = path if path.startswith("/") else os.path.join(self.src_root, path)
            lines = open(full).read().split("\n")
            l1, c1, l2, c2 = map(int, m.groups()[1:])
            txt = lines[l1-1][c1-1:c2-1] if l1 == l2 else " ".join([lines[l1-1][c1-1:]] + lines[l1:l2-1] + [lines[l2-1][:c2-1]])
            self.cache[key] = " ".join(txt.split())
        return self.cache[key]

    def resolve_local(self, name):
        key = ("res", name)
        if key in self.cache: return self.cache[key]
        res = self.fns.get(name)
        if res is None and not name.startswith(("core::", "std::", "alloc::", "<std::", "<core::")):
            n, _ = strip_turbofish(name)
            res = self.fns.get(n)
        if res is None and not name.startswith(("core::", "std::", "alloc::", "<std::", "<core::")):
            m = re.match(r"^<(.+) as (.+)>::(\w+)$", n)
            if m:
                ty, tr, meth = m.groups()
                if ty.startswith("&") and re.sub(r"<.*", "", tr).split("::")[-1] in STD_TRAITS: ty = None     # blanket impls of std traits for references: handled by models
            elif "::" in n: ty, meth = n.rsplit("::", 1); tr = None
            else: ty = None
            if ty is not None:
                tyl = re.sub(r"<.*", "", ty.lstrip("&").replace("mut ", "")).split("::")[-1]
                trl = re.sub(r"<.*", "", tr).split("::")[-1] if tr else None
                for k, f in self.fns.items():
                    if not k.endswith(">::" + meth) or "<impl at" not in k: continue
                    hdr = self.impl_header(k) or ""
                    if trl is None:
                        if re.match(r"^impl(<.*?>)? " + re.escape(tyl) + r"\b", hdr) and " for " not in hdr: res = f; break
                    else:
                        if re.search(r"\b" + re.escape(trl) + r"(<.*>)? for (&|\w+::)*" + re.escape(tyl) + r"\b", hdr): res = f; break
                        # derive: header is the trait name only, e.g. `Clone`; Self type from first arg
                        if hdr == trl:
                            sig = f.ltypes[f.args[0]] if f.args else f.ret_ty
                            if re.search(r"(^|[^\w])&?(mut )?([\w:]+::)?" + re.escape(tyl) + r"$", re.sub(r"<.*>", "", sig)): res = f; break
            if res is None:
                cands = [k for k in self.fns if k == name or k.endswith("::" + name)]
                if len(cands) == 1: res = self.fns[cands[0]]
            if res is None and "<" not in name:
                parts = name.split("::")
                for i in range(1, len(parts)):
                    k = "::".join(parts[i:])
                    if k in self.fns: res = self.fns[k]; break
        self.cache[key] = res
        return res

    def call_closure(self, clo, args):
        c = deref(clo)
        name = self.closure_index[c.tag]
        f = self.fns[name]
        envty = f.ltypes[f.args[0]]
        if envty.startswith("&"): env = clo if isinstance(clo, Slot) else Slot([c], 0)
        else: env = c
        return self.call(name, [], [env] + list(args))

    def call_value(self, fv, args):
        """call a closure value / fn pointer"""
        v = deref(fv)
        if isinstance(v, FnPtr): return self.call(v.name, [], list(args))
        if isinstance(v, Agg) and v.tag.startswith("{closure@"): return self.call_closure(fv, args)
        if isinstance(v, Agg) and v.tag.startswith("zst:"): return self.call(v.tag[4:], [], list(args))
        raise TypeError(f"call_value {v!r}")

    def call(self, name, gens, args):
        m = re.match(r"^<(Self|[A-Z]) as (.+)>::(\w+)$", name)
        if m and args:
            v = deref(args[0])
            tag = v.tag if isinstance(v, Agg) else (v.enum if isinstance(v, En) else None)
            if tag: name = f"<{tag} as {m.group(2)}>::{m.group(3)}"
        f = self.resolve_local(name)
        if f is None:
            m = re.match(r"^<(.+) as ([\w:]+)(<.*>)?>::(\w+)$", name)
            if m:
                tr = m.group(2).split("::")[-1]
                f = self.fns.get(f"{tr}::{m.group(4)}")   # trait default method
        if f is None:
            n, g = strip_turbofish(name)
            return dispatch_models(self, n, g, args)
        fr = Frame(f)
        for i, a in zip(f.args, args): fr.locals[i] = a
        self.depth += 1
        if self.depth > 400: raise Panic("recursion budget exceeded in " + name)
        bb = "bb0"
        if not hasattr(self, "stack"): self.stack = []
        self.stack.append([f.name, bb])
        try:
            while True:
                self.stack[-1][1] = bb
                blk = f.blocks[bb]
                for st in blk[:-1]:
                    self.nsteps += 1
                    k = st.index(" = ")
                    v = self.rvalue(fr, st[k+3:-1] if st.endswith(";") else st[k+3:])
                    self.place_slot(fr, st[:k]).set(v)
                self.nsteps += 1
                nxt = self.terminator(fr, blk[-1])
                if nxt is None: return fr.locals.get(0, UNIT)
                bb = nxt
        except (Panic, Unmodelled, Exception) as e:
            if not hasattr(e, "mir_stack"): e.mir_stack = [tuple(x) for x in self.stack]
            raise
        finally:
            self.depth -= 1; self.stack.pop()

    def terminator(self, fr, t):
        if t == "return;": return None
        m = re.match(r"^goto -> (bb\d+);$", t)
        if m: return m.group(1)
        m = re.match(r"^switchInt\((.*)\) -> \[(.*)\];$", t)
        if m:
            v = self.operand(fr, m.group(1))
            targets = [tuple(p.split(": ")) for p in m.group(2).split(", ")]
            if not v.sym():
                val = int(v.v)
                if v.ty[0] == "i" and val >> (INT_BITS[v.ty]-1): val -= 1 << INT_BITS[v.ty]
                for a, b in targets:
                    if a != "otherwise" and int(a) == val: return b
                return targets[-1][1]
            opts = []; others = []
            for a, b in targets:
                if a == "otherwise": continue
                c = (v.v if int(a) else z3.Not(v.v)) if v.ty == "bool" else (v.v == z3.BitVecVal(int(a), INT_BITS[v.ty]))
                opts.append((b, c)); others.append(z3.Not(c))
            if targets[-1][0] == "otherwise": opts.append((targets[-1][1], z3.And(*others)))
            return self.choose(opts)
        m = re.match(r"^drop\((.*)\) -> \[return: (bb\d+)", t)
        if m:
            try: v = self.place_slot(fr, m.group(1)).get()
            except (KeyError, TypeError, AttributeError): v = None
            if hasattr(v, "on_drop"): v.on_drop()
            return m.group(2)
        m = re.match(r"^assert\((!?)(.*?), \".*\) -> \[success: (bb\d+)", t)
        if m:
            c = self.operand(fr, m.group(2)).v
            if m.group(1): c = (not c) if isinstance(c, bool) else z3.Not(c)
            if isinstance(c, bool):
                if not c: raise Panic(t)
            else:
                if self.feasible(z3.Not(c)): raise Panic(t)
                self.assume(c)
            return m.group(3)
        if t == "unreachable;": raise Panic("unreachable reached")
        m = re.match(r"^(.*?) = (.*) -> \[return: (bb\d+)", t)
        if m:
            dest, rhs, nxt = m.groups()
            callee, args = parse_call(rhs)
            argv = [self.operand(fr, a) for a in split_top(args)] if args.strip() else []
            if callee.startswith(("move _", "copy _")):
                r = self.call_value(self.operand(fr, callee), argv)
            else:
                r = self.call(callee, [], argv)
            self.place_slot(fr, dest).set(r)
            return nxt
        m = re.match(r"^(.*?) = (.*) -> (?:unwind|bb\d+)", t)
        if m and "[return:" not in t:
            callee, args = parse_call(m.group(2))
            argv = [self.operand(fr, a) for a in split_top(args)] if args.strip() else []
            self.call(callee, [], argv)
            raise Panic("diverging call returned: " + callee)
        raise ValueError("terminator? " + t)
