"""Reader of Rust value expressions emitted by the example generator, and the lockstep check against the registry and
the generated items."""
import re
from .tokens import *

class ExprError(Exception): pass

def parse_expr(p):
    """-> ("lit", tok) | ("bool", v) | ("into", ("lit", tok)) | ("vec", [e]) | ("array_repeat", e, len_tok) | ("array", [e]) | ("tuple", [e], trailing_comma)
       | ("paren", e) | ("path", leading, segs) | ("struct", path, [(name, e)], has_rest) | ("call", path, [e], trailing)"""
    x = p.peek()
    if x is None: raise ExprError("expression expected")
    if x[0] == "p" and x[1] == "-" and p.peek(1) is not None and p.peek(1)[0] == "l":
        p.eat(); x = p.peek()
    if x[0] == "l":
        p.eat(); e = ("lit", x[1])
        if p.is_p(".") and p.is_i("into", 1) and p.is_g("Parenthesis", 2): p.eat(); p.eat(); p.eat(); return ("into", e)
        return e
    if x[0] == "g" and x[1] == "Parenthesis":
        p.eat(); q = P(x[2].t); items = []; trailing = False
        while not q.done():
            items.append(parse_expr(q)); trailing = False
            if not q.done(): q.expect_p(","); trailing = True
        if len(items) == 1 and not trailing: return ("paren", items[0])
        return ("tuple", items, trailing)
    if x[0] == "g" and x[1] == "Bracket":
        p.eat(); return parse_bracket(x)
    if x[0] == "i" and x[1] == "vec" and p.is_p("!", 1) and p.is_g("Bracket", 2):
        p.eat(); p.eat(); g = p.eat(); b = parse_bracket(g)
        if b[0] != "array": raise ExprError("vec! with repeat syntax")
        return ("vec", b[1])
    if x[0] == "i" and not isinstance(x[1], str): p.eat(); return ("bool", x[1])
    if x[0] == "i" and x[1] in ("true", "false"): p.eat(); return ("bool", x[1] == "true")
    # path
    lead = False
    if p.is_p(":") and p.is_p(":", 1): p.eat(); p.eat(); lead = True
    segs = [p.expect_i()]
    while p.is_p(":") and p.is_p(":", 1) and p.is_i(None, 2): p.eat(); p.eat(); segs.append(p.expect_i())
    if p.is_p("<"): raise ExprError("generic arguments in a value path")
    if p.is_g("Brace"):
        g = p.eat(); q = P(g[2].t); fields = []
        while not q.done():
            n = q.expect_i()
            if q.is_p(":") and not q.is_p(":", 1):
                q.eat(); fields.append((n, parse_expr(q)))
            else:
                # `name : :: path` : the colon of the field and a leading `::` are adjacent
                q.expect_p(":"); fields.append((n, parse_expr(q)))
            if not q.done(): q.expect_p(",")
        return ("struct", (lead, segs), fields)
    if p.is_g("Parenthesis"):
        g = p.eat(); q = P(g[2].t); items = []; trailing = False
        while not q.done():
            items.append(parse_expr(q)); trailing = False
            if not q.done(): q.expect_p(","); trailing = True
        return ("call", (lead, segs), items)
    return ("path", lead, segs)
def parse_bracket(g):
    q = P(g[2].t); items = []
    if q.done(): return ("array", [])
    first = parse_expr(q)
    if q.is_p(";"):
        q.eat(); n = q.eat()
        if not q.done() or n[0] != "l": raise ExprError("array repeat length")
        return ("array_repeat", first, n[1])
    items.append(first)
    while not q.done():
        q.expect_p(",")
        if q.done(): break
        items.append(parse_expr(q))
    return ("array", items)

SUFFIX = {"U8": "u8", "U16": "u16", "U32": "u32", "U64": "u64", "U128": "u128", "I8": "i8", "I16": "i16", "I32": "i32", "I64": "i64", "I128": "i128"}
def lit_suffix(tok):
    if isinstance(tok, str):
        m = re.match(r"^-?\d+([ui](?:8|16|32|64|128|size))?$", tok.replace(" ", ""))
        return ("num", m.group(1)) if m else (("char", None) if tok.startswith("'") else (("str", None) if tok.startswith('"') else ("other", tok)))
    if isinstance(tok, tuple) and tok[0] == "lit": return ("num", tok[2] if len(tok) > 2 else None)
    return ("other", tok)

class Lockstep:
    def __init__(self, reg, named_path, items, root):
        """named_path(i) -> (lead, segs) the generator's path for id i without generics; items: path tuple -> item"""
        self.reg = reg; self.named_path = named_path; self.items = items; self.root = root; self.probs = []
    def bad(self, msg): self.probs.append(msg)
    def copy_type(self, i):
        t = self.reg[i]; d = t["def"]; k = d[0]
        if k == "primitive": return d[1] != "Str"
        if k == "array": return isinstance(d[1], int) and d[1] <= 32 and self.copy_type(d[2])
        if k == "tuple": return all(self.copy_type(x) for x in d[1])
        if k == "compact": return self.copy_type(d[1])
        return False
    def fields(self, where, got_named, got_items, rfields, item_fields, item_form):
        """got_items: [(name|None, expr)]; rfields registry fields; item_fields: generated item's fields (incl. marker) or None"""
        marker = None
        if item_fields is not None:
            mk = [f for f in item_fields if f["ty"][0] == "path" and f["ty"][2][-1] == "PhantomData" and f["name"] in (None, "__ignore")]
            marker = mk[0] if mk else None
        want_n = len(rfields) + (1 if marker else 0)
        if len(got_items) != want_n: self.bad("%s: %d field values, the generated item has %d fields%s" % (where, len(got_items), want_n, " (incl. the marker for unused parameters)" if marker else "")); return
        for (n, e), f in zip(got_items, rfields):
            if (n is not None) != (f["name"] is not None) or (n is not None and n != f["name"]): self.bad("%s: field name %r, generated item has %r" % (where, n, f["name"]))
            tn = f.get("type_name") or ""
            if tn.startswith("Compact<"):
                if e[0] == "call" and e[1] == (False, ["Compact"]) and len(e[2]) == 1: e = e[2][0]
                else: self.bad("%s.%s: explicitly Compact-typed field without Compact(..)" % (where, f["name"]))
            elif e[0] == "call" and e[1] == (False, ["Compact"]): self.bad("%s.%s: Compact(..) around a field that is not explicitly Compact-typed" % (where, f["name"])); continue
            self.value(e, f["ty"], "%s.%s" % (where, f["name"] or "_"))
        if marker:
            n, e = got_items[-1]
            if (n or None) != marker["name"]: self.bad("%s: marker field is called %r, the generated item calls it %r" % (where, n, marker["name"]))
            if not (e[0] == "path" and e[2][-1] == "PhantomData"): self.bad("%s: marker value is not PhantomData" % where)
    def value(self, e, i, where):
        t = self.reg[i]; d = t["def"]; k = d[0]
        if k == "compact": return self.value(e, d[1], where)
        if k == "primitive":
            if d[1] == "Bool":
                if e[0] != "bool": self.bad("%s: %r for bool" % (where, e[0]))
            elif d[1] == "Char":
                if not (e[0] == "lit" and lit_suffix(e[1])[0] == "char"): self.bad("%s: not a char literal" % where)
            elif d[1] == "Str":
                if not (e[0] == "into" and lit_suffix(e[1][1])[0] == "str"): self.bad("%s: not `\"..\".into()`" % where)
            elif d[1] in ("U256", "I256"):
                if not (e[0] == "array" and len(e[1]) == 32): self.bad("%s: 256-bit value is not a 32 element array" % where)
            else:
                if e[0] != "lit" or lit_suffix(e[1]) != ("num", SUFFIX[d[1]]): self.bad("%s: literal %r does not carry the primitive's type %s" % (where, e[1] if e[0] == "lit" else e, SUFFIX[d[1]]))
            return
        if k == "sequence":
            if e[0] != "vec": self.bad("%s: not a vec![..]" % where); return
            for n, x in enumerate(e[1]): self.value(x, d[1], "%s[%d]" % (where, n))
            return
        if k == "array":
            if e[0] == "array_repeat":
                m = re.match(r"^(\d+)usize$", e[2]) if isinstance(e[2], str) else None
                if not m or int(m.group(1)) != d[1]: self.bad("%s: repeat length %r for an array of %s" % (where, e[2], d[1]))
                if not self.copy_type(d[2]): self.bad("%s: [x; N] short form for a non-Copy element" % where)
                self.value(e[1], d[2], where + "[]")
            elif e[0] == "array":
                if len(e[1]) != d[1]: self.bad("%s: %d elements for an array of %s" % (where, len(e[1]), d[1]))
                for n, x in enumerate(e[1]): self.value(x, d[2], "%s[%d]" % (where, n))
            else: self.bad("%s: not an array expression" % where)
            return
        if k == "tuple":
            if len(d[1]) == 0:
                if not (e[0] == "tuple" and not e[1]): self.bad("%s: not ()" % where)
                return
            if e[0] == "paren": self.bad("%s: `(x)` is a parenthesised expression, not a 1-tuple" % where); return
            if e[0] != "tuple" or len(e[1]) != len(d[1]): self.bad("%s: tuple arity %s vs %d" % (where, len(e[1]) if e[0] == "tuple" else e[0], len(d[1]))); return
            for n, (x, ti) in enumerate(zip(e[1], d[1])): self.value(x, ti, "%s.%d" % (where, n))
            return
        if k == "bitseq": return
        want = self.named_path(i)
        item = self.items.get(tuple(want[1])) if want and not want[0] else None
        if k == "composite":
            if e[0] == "path": gp, got, named = (e[1], e[2]), [], None
            elif e[0] == "struct": gp, got, named = e[1], e[2], True
            elif e[0] == "call": gp, got, named = e[1], [(None, x) for x in e[2]], False
            else: self.bad("%s: %s for a struct" % (where, e[0])); return
            if want and gp != want: self.bad("%s: struct literal path %s, the generated path without generics is %s" % (where, "::".join(gp[1]), "::".join(want[1])))
            if item is not None and item["kind"] == "struct": self.fields("%s(type #%d)" % (where, i), named, got, d[1], item["fields"], item["form"])
            else: self.fields("%s(type #%d)" % (where, i), named, got, d[1], None, None)
            return
        if k == "variant":
            if e[0] == "path" and e[2] == ["None"] and t["path"] == ["Option"]: return
            if e[0] == "path": gp, got = (e[1], e[2]), []
            elif e[0] == "struct": gp, got = e[1], e[2]
            elif e[0] == "call": gp, got = e[1], [(None, x) for x in e[2]]
            else: self.bad("%s: %s for an enum" % (where, e[0])); return
            vn = gp[1][-1]; base = (gp[0], gp[1][:-1])
            if want and base != want: self.bad("%s: variant literal path %s, the generated path without generics is %s" % (where, "::".join(base[1]), "::".join(want[1])))
            rv = [v for v in d[1] if v["name"] == vn]
            if not rv: self.bad("%s: variant %s does not exist" % (where, vn)); return
            iv = None
            if item is not None and item["kind"] == "enum": iv = next((v for v in item["variants"] if v["name"] == vn), None)
            self.fields("%s::%s" % (where, vn), None, got, rv[0]["fields"], iv["fields"] if iv else None, None)
            return
