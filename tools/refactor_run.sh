#!/bin/bash
# refactor_run.sh <Rn> [checks...] : runs checks (quick) against a behaviour-preserving refactoring applied in a scratch worktree; every exit must be 0
R="$1"; shift
W=/tmp/refac/$R
if [ ! -d "$W" ]; then git -C /repo worktree add --detach "$W" HEAD -q && (cd "$W" && git apply /verif/refactorings/$R/patch.diff); fi
cd /verif
CHECKS="${@:-C01 C02 C03 C04 C05 C06 C07 C08 C09 C10 C11 C12 C13 C14 C15 C16 C17 C18}"
for id in $CHECKS; do
  s=$(date +%s); out=$(VERIF_REPO=$W VERIF_EVIDENCE_DIR=/tmp/refac/ev_$R VERIF_CEX_DIR=/tmp/refac/cex_$R timeout 1500 ./check $id --tier quick 2>&1); rc=$?; e=$(date +%s)
  echo "$R $id exit=$rc $((e-s))s $(echo "$out" | grep -E 'VIOLATION|INCONCLUSIVE|OK:' | head -2 | cut -c1-400)"
done
