"""Spike 2: std library models."""
import re, z3
from engine import *

# ------------------------------------------------------------------ iterators (lazy)
class It: pass
class ListIt(It):           # over python list, yielding Slots (by ref) or values
    def __init__(self, items, byref=True): self.items = items; self.pos = 0; self.byref = byref
    def next(self, eng):
        if self.pos < len(self.items):
            self.pos += 1
            return Slot(self.items, self.pos - 1) if self.byref else self.items[self.pos - 1]
        return None
class ZipIt(It):
    def __init__(self, a, b): self.a = a; self.b = b
    def next(self, eng):
        x = self.a.next(eng)
        if x is None: return None
        y = self.b.next(eng)
        if y is None: return None
        return Agg("()", [x, y])
class MapIt(It):
    def __init__(self, it, f): self.it = it; self.f = f
    def next(self, eng):
        x = self.it.next(eng)
        return None if x is None else eng.call_value(self.f, [x])
class FilterMapIt(It):
    def __init__(self, it, f): self.it = it; self.f = f
    def next(self, eng):
        while True:
            x = self.it.next(eng)
            if x is None: return None
            r = eng.call_value(self.f, [x])
            if r.idx == 1: return r.f[0]
class FilterIt(It):
    def __init__(self, it, f): self.it = it; self.f = f
    def next(self, eng):
        while True:
            x = self.it.next(eng)
            if x is None: return None
            if eng.branch(eng.call_value(self.f, [Slot([x], 0)])): return x
class EnumIt(It):
    def __init__(self, it): self.it = it; self.i = 0
    def next(self, eng):
        x = self.it.next(eng)
        if x is None: return None
        self.i += 1
        return Agg("()", [Sc("usize", self.i - 1), x])
class ClonedIt(It):
    def __init__(self, it): self.it = it
    def next(self, eng):
        x = self.it.next(eng)
        return None if x is None else clone_val(eng, x)
class ChainIt(It):
    def __init__(self, a, b): self.a = a; self.b = b
    def next(self, eng):
        if self.a is not None:
            x = self.a.next(eng)
            if x is not None: return x
            self.a = None
        return self.b.next(eng)

def as_iter(eng, x):
    v = deref(x)
    if isinstance(v, It): return v
    if isinstance(v, VecV): return ListIt(v.items, byref=isinstance(x, Slot))
    if isinstance(v, MapV):
        if isinstance(x, Slot): return ListIt([Agg("()", [Slot(e, 0), Slot(e, 1)]) for e in eng_order(eng, v)], byref=False)
        return ListIt([Agg("()", [e[0], e[1]]) for e in eng_order(eng, v)], byref=False)
    if isinstance(v, SetV): return ListIt(list(eng_order_set(eng, v)), byref=isinstance(x, Slot))
    if isinstance(v, En) and v.enum == "Option":
        if v.idx == 0: return ListIt([], False)
        return ListIt([Slot(v.f, 0)], False) if isinstance(x, Slot) else ListIt([v.f[0]], False)
    if isinstance(v, Agg) and v.tag == "Range": return RangeIt(v)
    if isinstance(v, Agg) and v.tag == "RangeFrom": return RangeFromIt(v)
    if isinstance(v, Agg) and v.tag == "RangeInclusive": return RangeIt(Agg("Range", [v.f[0], eng.binop("Add", v.f[1], Sc(v.f[1].ty, 1))]))
    raise TypeError(f"as_iter {v!r}")

class RangeIt(It):
    def __init__(self, r): self.r = r
    def next(self, eng):
        s, e = self.r.f
        if eng.branch(eng.binop("Lt", s, e)):
            self.r.f[0] = eng.binop("Add", s, Sc(s.ty, 1)); return s
        return None

def _has_sym(v):
    v = deref(v)
    if isinstance(v, Sc): return v.sym()
    if isinstance(v, StrV): return v.concrete() is None
    if isinstance(v, VecV): return any(_has_sym(x) for x in v.items)
    if isinstance(v, (Agg, En)): return any(_has_sym(x) for x in v.f)
    return False
def cmp_generic(eng, a, b):
    """three-way comparison following derived Ord (lexicographic); forks on symbolic scalars"""
    a, b = deref(a), deref(b)
    if isinstance(a, Sc):
        lt = eng.binop("Lt", a, b).v; eq = eng.binop("Eq", a, b).v
        if isinstance(lt, bool) and isinstance(eq, bool): return -1 if lt else (0 if eq else 1)
        return eng.choose([(-1, lt), (0, eq), (1, z3.And(z3.Not(lt), z3.Not(eq)))])
    if isinstance(a, StrV):
        x, y = a.concrete(), b.concrete()
        if x is None or y is None:
            if len(a.p) == 1 and len(b.p) == 1 and hasattr(eng, "name_order"): return eng.name_order(a.p[0], b.p[0])
            raise Unmodelled("ordering of symbolic strings")
        return -1 if x < y else (0 if x == y else 1)
    if isinstance(a, En):
        if a.idx != b.idx: return -1 if a.idx < b.idx else 1
        xs, ys = a.f, b.f
    elif isinstance(a, VecV): xs, ys = a.items, b.items
    elif isinstance(a, Agg): xs, ys = a.f, b.f
    elif hasattr(a, "sort_key"):
        x, y = a.sort_key(), b.sort_key(); return -1 if x < y else (0 if x == y else 1)
    else: raise Unmodelled("ordering of %r" % type(a).__name__)
    for x, y in zip(xs, ys):
        c = cmp_generic(eng, x, y)
        if c: return c
    return -1 if len(xs) < len(ys) else (0 if len(xs) == len(ys) else 1)
def sym_sorted(eng, items, key=lambda x: x):
    out = []
    for it in items:
        i = len(out)
        while i > 0 and cmp_generic(eng, key(out[i-1]), key(it)) > 0: i -= 1
        out.insert(i, it)
    return out
def hash_perm(eng, obj, items):
    """iteration order of a hash container: insertion order, reversed, or (eng.hash_order == 'fork') an arbitrary
    permutation chosen through the fork mechanism; stable for an unmodified container"""
    mode = getattr(eng, "hash_order", "insertion")
    if mode == "insertion" or len(items) < 2: return list(items)
    if mode == "reversed": return list(reversed(items))
    if len(items) > 3: return list(reversed(items))        # arbitrary permutations are forked for <= 3 entries only (stated bound)
    key = tuple(id(x) for x in items)
    cache = getattr(obj, "_perm", None)
    if cache is not None and cache[0] == key: return [items[i] for i in cache[1]]
    rest = list(range(len(items))); perm = []
    while len(rest) > 1:
        k = eng.choose([(i, True) for i in rest]); perm.append(k); rest.remove(k)
    perm += rest
    obj._perm = (key, perm)
    return [items[i] for i in perm]
class RangeFromIt(It):
    def __init__(self, r): self.r = r
    def next(self, eng):
        s = self.r.f[0]; r = eng.binop("AddWithOverflow", s, Sc(s.ty, 1))
        if eng.branch(r.f[1]): raise Panic("attempt to add with overflow in RangeFrom")
        self.r.f[0] = r.f[0]; return s
def eng_order(eng, m):
    if m.kind == "btree":
        if any(_has_sym(e[0]) for e in m.e): return sym_sorted(eng, m.e, key=lambda e: e[0])
        return sorted(m.e, key=lambda e: sort_key(e[0]))
    return hash_perm(eng, m, m.e)
def eng_order_set(eng, s):
    if s.kind == "btree":
        if any(_has_sym(x) for x in s.items): return sym_sorted(eng, s.items)
        return sorted(s.items, key=sort_key)
    return hash_perm(eng, s, s.items)

def sort_key(v):
    v = deref(v)
    if isinstance(v, StrV): return (0, v.concrete())
    if isinstance(v, Sc): return (1, v.v)
    if isinstance(v, VecV): return (2, tuple(sort_key(x) for x in v.items))
    if isinstance(v, Agg): return (3, tuple(sort_key(x) for x in v.f))
    if hasattr(v, "sort_key"): return v.sort_key()
    raise TypeError(f"sort_key {v!r}")

def clone_val(eng, x):
    v = x
    while isinstance(v, Slot): v = v.get()
    if isinstance(v, Sc): return v
    if isinstance(v, StrV): return StrV(list(v.p))
    if hasattr(v, "clone_with"): return v.clone_with(lambda i: clone_val(eng, i))
    if isinstance(v, VecV): return VecV([clone_val(eng, i) for i in v.items])
    if isinstance(v, En): return En(v.enum, v.idx, v.name, [clone_val(eng, i) for i in v.f])
    if isinstance(v, Agg) and v.tag != "Box": return Agg(v.tag, [clone_val(eng, i) for i in v.f])
    if isinstance(v, RcV): return v
    if isinstance(v, Agg) and v.tag == "Box": return mk_box(clone_val(eng, deref(v)))
    if isinstance(v, MapV):
        m = MapV(v.kind); m.e = [[clone_val(eng, k), clone_val(eng, val)] for k, val in v.e]; return m
    if isinstance(v, SetV):
        s = SetV(v.kind); s.items = [clone_val(eng, k) for k in v.items]; return s
    if hasattr(v, "clone"): return v.clone()
    if isinstance(v, It):
        import copy
        c = copy.copy(v)
        for k in ("it", "a", "b"):
            if hasattr(c, k) and isinstance(getattr(c, k), It): setattr(c, k, clone_val(eng, getattr(c, k)))
        return c
    if isinstance(v, Slot): return v
    if isinstance(v, FnPtr): return v
    raise TypeError(f"clone {v!r}")

SYMSTR = {}
def str_code(s): return SYMSTR.setdefault(s, 1000 + len(SYMSTR))
def z_and(xs):
    xs = [x for x in xs if x is not True]
    if any(x is False for x in xs): return False
    return True if not xs else (xs[0] if len(xs) == 1 else z3.And(*xs))
def z_or(xs):
    xs = [x for x in xs if x is not False]
    if any(x is True for x in xs): return True
    return False if not xs else (xs[0] if len(xs) == 1 else z3.Or(*xs))
def z_not(x): return (not x) if isinstance(x, bool) else z3.Not(x)

def eq_val(eng, a, b):
    a = deref(a); b = deref(b)
    if isinstance(a, Sc): return eng.binop("Eq", a, b).v
    if isinstance(a, StrV):
        ca, cb = a.concrete(), b.concrete()
        if ca is not None and cb is not None: return ca == cb
        if len(a.p) == 1 and len(b.p) == 1:
            pa, pb = a.p[0], b.p[0]
            pa = z3.IntVal(str_code(pa)) if isinstance(pa, str) else pa
            pb = z3.IntVal(str_code(pb)) if isinstance(pb, str) else pb
            return pa == pb
        return str_eq_pieces(eng, a.p, b.p)
    if isinstance(a, En):
        if a.idx != b.idx: return False
        return z_and([eq_val(eng, x, y) for x, y in zip(a.f, b.f)])
    if isinstance(a, VecV):
        if len(a.items) != len(b.items): return False
        return z_and([eq_val(eng, x, y) for x, y in zip(a.items, b.items)])
    if isinstance(a, Agg): return z_and([eq_val(eng, x, y) for x, y in zip(a.f, b.f)])
    if hasattr(a, "eq"): return a.eq(b)
    raise TypeError(f"eq_val {a!r}")

def str_eq_pieces(eng, pa, pb):
    """equality of strings with symbolic pieces: ("int", Sc) renders as its decimal digits, ("char", Sc) as one char,
    ("sym", term) is an atomic symbolic name"""
    def flat(p):
        out = []
        for x in p:
            if isinstance(x, str): out += list(x)
            else: out.append(x)
        return out
    A, B_ = flat(pa), flat(pb); i = j = 0; conds = []
    while i < len(A) and j < len(B_):
        x, y = A[i], B_[j]
        if isinstance(x, str) and isinstance(y, str):
            if x != y: return False
            i += 1; j += 1; continue
        if not isinstance(x, str) and not isinstance(y, str):
            if x[0] != y[0]: raise Unmodelled("string equality between different kinds of symbolic pieces")
            xv = x[1].v if hasattr(x[1], "v") else x[1]; yv = y[1].v if hasattr(y[1], "v") else y[1]
            conds.append(xv == yv); i += 1; j += 1; continue
        # one symbolic, one concrete
        symp, conc, k = (x, B_, j) if not isinstance(x, str) else (y, A, i)
        if symp[0] == "int":
            e = k
            while e < len(conc) and isinstance(conc[e], str) and conc[e].isdigit(): e += 1
            if e == k: return False
            val = int("".join(conc[k:e])); sv = symp[1].v
            conds.append(sv == val if not isinstance(sv, int) else sv == val)
            if not isinstance(x, str): i += 1; j = e
            else: j += 1; i = e
        elif symp[0] == "char":
            sv = symp[1].v; conds.append(sv == ord(conc[k]))
            i += 1; j += 1
        else: return False        # an atomic symbolic name never equals text that continues past it / a literal here
    if i != len(A) or j != len(B_): return False
    return z_and(conds)
def map_find(eng, m, key):
    """returns entry or None (forks on symbolic key equality)"""
    for e in m.e:
        if eng.branch(eq_val(eng, e[0], key)): return e
    return None

# ------------------------------------------------------------------ Vec / slices
@model(r"^Vec::new$|^Vec::with_capacity$|^<Vec<.*> as (std::default::)?Default>::default$")
def _(eng, m, g, a): return VecV()
@model(r"^Vec::push$")
def _(eng, m, g, a): deref(a[0]).items.append(a[1]); return UNIT
@model(r"^Vec::insert$")
def _(eng, m, g, a): deref(a[0]).items.insert(a[1].v, a[2]); return UNIT
@model(r"^(Vec|(?:core|std)::slice::<impl \[.*\]>|syn::punctuated::Punctuated)::len$")
def _(eng, m, g, a): return Sc("usize", len(deref(a[0]).items))
@model(r"^(Vec|(?:core|std)::slice::<impl \[.*\]>|syn::punctuated::Punctuated)::is_empty$")
def _(eng, m, g, a): return B(len(deref(a[0]).items) == 0)
@model(r"^<((std::vec::)?Vec<.*>|(std::string::)?String|&?mut Vec<.*>) as (std::ops::)?(Deref|DerefMut)>::(deref|deref_mut)$")
def _(eng, m, g, a): return a[0] if isinstance(a[0], Slot) else Slot([a[0]], 0)
@model(r"^<Rc<.*> as (std::ops::)?Deref>::deref$")
def _(eng, m, g, a): return Slot(deref(a[0]).cell, 0)
@model(r"^(?:core|std)::slice::<impl \[.*\]>::(iter|iter_mut)$|^syn::punctuated::Punctuated::(iter|iter_mut)$")
def _(eng, m, g, a): return ListIt(deref(a[0]).items, True)
@model(r"^(?:core|std)::slice::<impl \[.*\]>::(last|last_mut)$|^syn::punctuated::Punctuated::last$")
def _(eng, m, g, a):
    it = deref(a[0]).items
    return some(Slot(it, len(it) - 1)) if it else none()
@model(r"^(?:core|std)::slice::<impl \[.*\]>::first$|^syn::punctuated::Punctuated::first$")
def _(eng, m, g, a):
    it = deref(a[0]).items
    return some(Slot(it, 0)) if it else none()
@model(r"^(?:core|std)::slice::<impl \[.*\]>::(get|get_mut)$")
def _(eng, m, g, a):
    it = deref(a[0]).items; i = a[1]
    if i.sym():
        k = eng.choose([(j, i.v == j) for j in range(len(it))] + [(-1, z3.UGE(i.v, len(it)))])
        return some(Slot(it, k)) if k >= 0 else none()
    return some(Slot(it, i.v)) if i.v < len(it) else none()
@model(r"^(?:core|std)::slice::<impl \[.*\]>::split_last$")
def _(eng, m, g, a):
    it = deref(a[0]).items
    if not it: return none()
    return some(Agg("()", [Slot(it, len(it) - 1), Slot([VecV(it[:-1])], 0)]))
@model(r"^(core|std)::slice::<impl \[.*\]>::to_vec$")
def _(eng, m, g, a): return VecV([clone_val(eng, x) for x in deref(a[0]).items])
@model(r"^(core|std)::slice::<impl \[.*\]>::(join|concat)$")
def _(eng, m, g, a):
    out = []; sep = deref(a[1]).p if len(a) > 1 else []
    for i, s in enumerate(deref(a[0]).items):
        if i: out += sep
        out += deref(s).p
    return StrV(out)
@model(r"^(?:core|std)::slice::<impl \[.*\]>::sort_by$")
def _(eng, m, g, a):
    items = deref(a[0]).items
    # insertion sort calling the comparator (Ordering: Less=-1, Equal=0, Greater=1)
    for i in range(1, len(items)):
        j = i
        while j > 0:
            o = eng.call_value(a[1], [Slot(items, j - 1), Slot(items, j)])
            if o.idx == 2:   # Greater
                items[j - 1], items[j] = items[j], items[j - 1]; j -= 1
            else: break
    return UNIT
@model(r"^<Vec<.*> as (std::ops::)?Index<usize>>::index$")
def _(eng, m, g, a):
    it = deref(a[0]).items
    if a[1].v >= len(it): raise Panic("index out of bounds")
    return Slot(it, a[1].v)
@model(r"^<\[.*\] as (std::ops::)?Index<(std::ops::)?RangeFrom<usize>>>::index$")
def _(eng, m, g, a):
    it = deref(a[0]).items; s = a[1].f[0].v
    if s > len(it): raise Panic("slice index out of range")
    return Slot([VecV(it[s:])], 0)
@model(r"^<&?(mut )?(Vec<.*>|\[.*\]|HashSet<.*>|HashMap<.*>|BTreeSet<.*>|BTreeMap<.*>|impl IntoIterator.*) as IntoIterator>::into_iter$")
def _(eng, m, g, a): return as_iter(eng, a[0])
@model(r"^<.* as IntoIterator>::into_iter$")
def _(eng, m, g, a): return as_iter(eng, a[0])
@model(r"^<Vec<.*> as Extend<.*>>::extend$")
def _(eng, m, g, a):
    v = deref(a[0]); it = as_iter(eng, a[1])
    while True:
        x = it.next(eng)
        if x is None: return UNIT
        v.items.append(x)
@model(r"^std::boxed::Box::new$|^Box::new$|^std::boxed::Box::<.*>::new$")
def _(eng, m, g, a): return mk_box(a[0])
@model(r"^(?:std::boxed::)?Box::new_uninit$")
def _(eng, m, g, a): return mk_box(Agg("MaybeUninit", [UNIT, Agg("ManuallyDrop", [Agg("MaybeDangling", [None])])]))
@model(r"^(?:std::boxed::)?box_assume_init_into_vec_unsafe$")
def _(eng, m, g, a):
    v = deref(a[0])
    if isinstance(v, Agg) and v.tag == "MaybeUninit": return v.f[1].f[0].f[0]
    return v
@model(r"^must_use$")
def _(eng, m, g, a): return a[0]

# ------------------------------------------------------------------ iterator protocol
@model(r"^<.* as Iterator>::next$")
def _(eng, m, g, a):
    x = deref(a[0]).next(eng)
    return none() if x is None else some(x)
@model(r"^<.* as Iterator>::map$")
def _(eng, m, g, a): return MapIt(as_iter(eng, a[0]), a[1])
@model(r"^<.* as Iterator>::filter_map$")
def _(eng, m, g, a): return FilterMapIt(as_iter(eng, a[0]), a[1])
@model(r"^<.* as Iterator>::filter$")
def _(eng, m, g, a): return FilterIt(as_iter(eng, a[0]), a[1])
@model(r"^<.* as Iterator>::enumerate$")
def _(eng, m, g, a): return EnumIt(as_iter(eng, a[0]))
@model(r"^<.* as Iterator>::zip$")
def _(eng, m, g, a): return ZipIt(as_iter(eng, a[0]), as_iter(eng, a[1]))
@model(r"^<.* as Iterator>::cloned$")
def _(eng, m, g, a): return ClonedIt(as_iter(eng, a[0]))
@model(r"^<.* as Iterator>::chain$")
def _(eng, m, g, a): return ChainIt(as_iter(eng, a[0]), as_iter(eng, a[1]))
@model(r"^<.* as Iterator>::(all|any)$")
def _(eng, m, g, a):
    it = as_iter(eng, a[0]); want = m.group(1) == "any"
    while True:
        x = it.next(eng)
        if x is None: return B(not want)
        if eng.branch(eng.call_value(a[1], [x])) == want: return B(want)
@model(r"^<.* as Iterator>::position$")
def _(eng, m, g, a):
    it = as_iter(eng, a[0]); i = 0
    while True:
        x = it.next(eng)
        if x is None: return none()
        if eng.branch(eng.call_value(a[1], [x])): return some(Sc("usize", i))
        i += 1
@model(r"^<.* as Iterator>::find$")
def _(eng, m, g, a):
    it = as_iter(eng, a[0])
    while True:
        x = it.next(eng)
        if x is None: return none()
        if eng.branch(eng.call_value(a[1], [Slot([x], 0)])): return some(x)
@model(r"^<.* as Iterator>::last$")
def _(eng, m, g, a):
    it = as_iter(eng, a[0]); last = None
    while True:
        x = it.next(eng)
        if x is None: return none() if last is None else some(last)
        last = x
@model(r"^<.* as Iterator>::collect$")
def _(eng, m, g, a):
    target = g[-1] if g else ""
    it = as_iter(eng, a[0])
    return collect_into(eng, it, target)

def drain(eng, it):
    out = []
    while True:
        x = it.next(eng)
        if x is None: return out
        out.append(x)

def collect_into(eng, it, target):
    t = target.strip()
    if t.startswith(("Result<", "std::result::Result<")):
        inner = split_top(t[t.index("<")+1:-1])[0]
        out = []
        while True:
            x = it.next(eng)
            if x is None: break
            if x.idx == 1: return err(x.f[0])
            out.append(x.f[0])
        return ok(collect_into(eng, ListIt(out, False), inner))
    if t.startswith(("Vec<", "std::vec::Vec<")) or t == "_" or t == "": return VecV(drain(eng, it))
    if t.startswith(("BTreeSet<", "HashSet<", "std::collections::BTreeSet<", "std::collections::HashSet<")):
        s = SetV("btree" if "BTree" in t else "hash")
        for x in drain(eng, it): set_insert(eng, s, x)
        return s
    if t.startswith(("HashMap<", "BTreeMap<", "std::collections::HashMap<")):
        mm = MapV("btree" if "BTree" in t else "hash")
        for x in drain(eng, it):
            e = map_find(eng, mm, x.f[0])
            if e: e[1] = x.f[1]
            else: mm.e.append([x.f[0], x.f[1]])
        return mm
    if t.startswith("Derives"): return eng.call("<Derives as FromIterator<syn::Path>>::from_iter", [], [it])
    for rx, fn in COLLECT_HOOKS:
        if rx.match(t): return fn(eng, it, t)
    # any other collection: through its own FromIterator model (spelled with and without the std/crate module path)
    try: return eng.call("<%s as FromIterator<_>>::from_iter" % t, [t], [it])
    except Unmodelled: pass
    raise Unmodelled("collect into " + t)
COLLECT_HOOKS = []

def set_insert(eng, s, x):
    for y in s.items:
        if eng.branch(eq_val(eng, y, x)): return False
    s.items.append(x); return True

# ------------------------------------------------------------------ Option / Result / bool
@model(r"^Option::(expect|unwrap)$")
def _(eng, m, g, a):
    if a[0].idx == 0: raise Panic("Option::%s on None %s" % (m.group(1), a[1] if len(a) > 1 else ""))
    return a[0].f[0]
@model(r"^Result::(expect|unwrap)$")
def _(eng, m, g, a):
    if a[0].idx == 1: raise Panic("Result::%s on Err %r" % (m.group(1), a[0].f[0]))
    return a[0].f[0]
@model(r"^Option::map$")
def _(eng, m, g, a): return none() if a[0].idx == 0 else some(eng.call_value(a[1], [a[0].f[0]]))
@model(r"^Option::(and_then)$")
def _(eng, m, g, a): return none() if a[0].idx == 0 else eng.call_value(a[1], [a[0].f[0]])
@model(r"^Option::or_else$")
def _(eng, m, g, a): return a[0] if a[0].idx == 1 else eng.call_value(a[1], [])
@model(r"^Option::or$")
def _(eng, m, g, a): return a[0] if a[0].idx == 1 else a[1]
@model(r"^Option::filter$")
def _(eng, m, g, a):
    if a[0].idx == 0: return a[0]
    return a[0] if eng.branch(eng.call_value(a[1], [Slot(a[0].f, 0)])) else none()
@model(r"^Option::(as_ref|as_mut)$")
def _(eng, m, g, a):
    o = deref(a[0]); return none() if o.idx == 0 else some(Slot(o.f, 0))
@model(r"^Option::as_deref$")
def _(eng, m, g, a):
    o = deref(a[0]); return none() if o.idx == 0 else some(Slot(o.f, 0))
@model(r"^Option::zip$")
def _(eng, m, g, a): return some(Agg("()", [a[0].f[0], a[1].f[0]])) if a[0].idx == 1 and a[1].idx == 1 else none()
@model(r"^Option::(is_none|is_some)$")
def _(eng, m, g, a): return B((deref(a[0]).idx == 0) == (m.group(1) == "is_none"))
@model(r"^Option::is_some_and$")
def _(eng, m, g, a): return B(False) if a[0].idx == 0 else eng.call_value(a[1], [a[0].f[0]])
@model(r"^Option::is_none_or$")
def _(eng, m, g, a): return B(True) if a[0].idx == 0 else eng.call_value(a[1], [a[0].f[0]])
@model(r"^Option::ok_or$")
def _(eng, m, g, a): return ok(a[0].f[0]) if a[0].idx == 1 else err(a[1])
@model(r"^Option::ok_or_else$")
def _(eng, m, g, a): return ok(a[0].f[0]) if a[0].idx == 1 else err(eng.call_value(a[1], []))
@model(r"^Option::unwrap_or_default$")
def _(eng, m, g, a):
    if a[0].idx == 1: return a[0].f[0]
    t = g[0] if g else ""
    if t == "bool": return B(False)
    for rx, fn in DEFAULT_HOOKS:
        if rx.match(t): return fn(eng)
    raise Unmodelled("default for " + t)
DEFAULT_HOOKS = []
@model(r"^Option::cloned$")
def _(eng, m, g, a): return none() if a[0].idx == 0 else some(clone_val(eng, a[0].f[0]))
@model(r"^Result::map$")
def _(eng, m, g, a): return a[0] if a[0].idx == 1 else ok(eng.call_value(a[1], [a[0].f[0]]))
@model(r"^Result::map_err$")
def _(eng, m, g, a): return a[0] if a[0].idx == 0 else err(eng.call_value(a[1], [a[0].f[0]]))
@model(r"^<Result<.*> as (std::ops::)?Try>::branch$")
def _(eng, m, g, a):
    r = a[0]
    return En("ControlFlow", 0, "Continue", [r.f[0]]) if r.idx == 0 else En("ControlFlow", 1, "Break", [err(r.f[0])])
@model(r"^<Option<.*> as (std::ops::)?Try>::branch$")
def _(eng, m, g, a):
    r = a[0]
    return En("ControlFlow", 0, "Continue", [r.f[0]]) if r.idx == 1 else En("ControlFlow", 1, "Break", [none()])
@model(r"^<Option<.*> as (std::ops::)?FromResidual<.*>>::from_residual$")
def _(eng, m, g, a): return none()
@model(r"^<Result<(.*)> as (std::ops::)?FromResidual<Result<(.*)>>>::from_residual$")
def _(eng, m, g, a):
    te = split_top(m.group(1))[-1]; se = split_top(m.group(3))[-1]
    e = a[0].f[0]
    if te != se: e = eng.call(f"<{te} as From<{se}>>::from", [], [e])
    return err(e)
@model(r"^(core::bool::<impl bool>|bool)::then_some$")
def _(eng, m, g, a): return some(a[1]) if eng.branch(a[0]) else none()
@model(r"^(core::bool::<impl bool>|bool)::then$")
def _(eng, m, g, a): return some(eng.call_value(a[1], [])) if eng.branch(a[0]) else none()
@model(r"^<.* as (std::ops::)?(Fn|FnMut|FnOnce)<.*>>::(call|call_mut|call_once)$")
def _(eng, m, g, a): return eng.call_value(a[0], a[1].f)

# ------------------------------------------------------------------ equality / clone / strings
@model(r"^<.* as PartialEq(<.*>)?>::(eq|ne)$")
def _(eng, m, g, a):
    r = eq_val(eng, a[0], a[1])
    return B(z_not(r) if m.group(2) == "ne" else r)
@model(r"^<.* as Clone>::clone$")
def _(eng, m, g, a): return clone_val(eng, a[0])
@model(r"^<(str|String|&str) as ToString>::to_string$|^<String as From<&str>>::from$|^<str as ToOwned>::to_owned$|^<&str as Into<String>>::into$")
def _(eng, m, g, a): return StrV(list(deref(a[0]).p))
@model(r"^String::new$")
def _(eng, m, g, a): return StrV()
@model(r"^String::as_str$|^<String as AsRef<str>>::as_ref$")
def _(eng, m, g, a): return a[0]
@model(r"^core::str::<impl str>::contains$")
def _(eng, m, g, a):
    s = deref(a[0]).concrete(); p = deref(a[1]).concrete()
    if s is None or p is None: raise Unmodelled("contains on symbolic string")
    return B(p in s)
@model(r"^core::str::<impl str>::starts_with$")
def _(eng, m, g, a):
    s = deref(a[0]).concrete(); p = deref(a[1])
    if isinstance(p, Sc): return B(s.startswith(chr(p.v)))
    if isinstance(p, (Agg, FnPtr)): return B(bool(s) and eng.branch(eng.call_value(a[1], [Sc("char", ord(s[0]))])))
    return B(s.startswith(p.concrete()))
@model(r"^Rc::new$")
def _(eng, m, g, a): return RcV(a[0])

# ------------------------------------------------------------------ fmt
@model(r"^core::fmt::rt::Argument::new_(display|debug)$")
def _(eng, m, g, a): return Agg("fmtarg", [m.group(1), a[0]])
@model(r"^Arguments::new$|^core::fmt::Arguments::new$")
def _(eng, m, g, a): return Agg("fmtargs", [a[0], deref(a[1])])
@model(r"^Arguments::from_str$|^core::fmt::Arguments::from_str$")
def _(eng, m, g, a): return Agg("fmtstr", [a[0]])
def display(eng, v):
    v = deref(v)
    if isinstance(v, StrV): return list(v.p)
    if isinstance(v, Sc): return [str(v.v)] if not v.sym() else [("int", v)]
    if isinstance(v, Agg) and v.tag == "IdentFragmentAdapter": return display(eng, v.f[0])
    if hasattr(v, "display"): return v.display()
    return ["<display:%s>" % type(v).__name__]
@model(r"^format$|^alloc::fmt::format$|^std::fmt::format$")
def _(eng, m, g, a):
    fa = a[0]
    if fa.tag == "fmtstr": return StrV(list(deref(fa.f[0]).p))
    tmpl = deref(fa.f[0]); tmpl = tmpl.f[0] if isinstance(tmpl, Agg) else tmpl
    args = fa.f[1].items
    out = []; i = 0; nexta = 0
    while True:
        n = tmpl[i]; i += 1
        if n == 0 and i == len(tmpl): break
        if n == 0: break
        if n < 0x80: out.append(tmpl[i:i+n].decode()); i += n
        elif n == 0x80:
            ln = int.from_bytes(tmpl[i:i+2], "little"); i += 2; out.append(tmpl[i:i+ln].decode()); i += ln
        else:
            if n & 1: i += 4
            if n & 2: i += 2
            if n & 4: i += 2
            if n & 8: idx = int.from_bytes(tmpl[i:i+2], "little"); i += 2
            else: idx = nexta
            nexta = idx + 1
            arg = args[idx]
            out += display(eng, arg.f[1]) if arg.f[0] == "display" else ["<debug>"]
    # merge adjacent concrete pieces
    merged = []
    for p in out:
        if merged and isinstance(p, str) and isinstance(merged[-1], str): merged[-1] += p
        else: merged.append(p)
    return StrV(merged)

# ------------------------------------------------------------------ maps / sets
@model(r"^(HashMap|BTreeMap)::new$|^<(HashMap|BTreeMap)<.*> as (std::default::)?Default>::default$")
def _(eng, m, g, a): return MapV("btree" if "BTree" in m.group(0) else "hash")
@model(r"^(HashSet|BTreeSet)::new$|^<(HashSet|BTreeSet)<.*> as (std::default::)?Default>::default$")
def _(eng, m, g, a): return SetV("btree" if "BTree" in m.group(0) else "hash")
@model(r"^(HashMap|BTreeMap)::(get|get_mut)$")
def _(eng, m, g, a):
    e = map_find(eng, deref(a[0]), a[1]); return some(Slot(e, 1)) if e else none()
@model(r"^(HashMap|BTreeMap)::contains_key$")
def _(eng, m, g, a): return B(map_find(eng, deref(a[0]), a[1]) is not None)
@model(r"^(HashMap|BTreeMap)::insert$")
def _(eng, m, g, a):
    mm = deref(a[0]); e = map_find(eng, mm, a[1])
    if e: old = e[1]; e[1] = a[2]; return some(old)
    mm.e.append([a[1], a[2]]); return none()
@model(r"^(HashMap|BTreeMap)::remove$")
def _(eng, m, g, a):
    mm = deref(a[0]); e = map_find(eng, mm, a[1])
    if e: mm.e.remove(e); return some(e[1])
    return none()
@model(r"^(HashMap|BTreeMap|HashSet|BTreeSet)::is_empty$")
def _(eng, m, g, a):
    v = deref(a[0]); return B(len(v.e if isinstance(v, MapV) else v.items) == 0)
@model(r"^(HashMap|BTreeMap|HashSet|BTreeSet)::len$")
def _(eng, m, g, a):
    v = deref(a[0]); return Sc("usize", len(v.e if isinstance(v, MapV) else v.items))
@model(r"^(HashMap|BTreeMap)::entry$")
def _(eng, m, g, a):
    mm = deref(a[0]); e = map_find(eng, mm, a[1])
    en = "btree_map::Entry" if mm.kind == "btree" else "hash_map::Entry"
    if e: return En(en, VARIANTS[(en, "Occupied")], "Occupied", [Agg("occ", [mm, e])])
    return En(en, VARIANTS[(en, "Vacant")], "Vacant", [Agg("vac", [mm, a[1]])])
@model(r"^std::collections::(hash_map|btree_map)::Entry::(or_default|or_insert_with|or_insert)$")
def _(eng, m, g, a):
    en = a[0]
    if en.name == "Occupied": return Slot(en.f[0].f[1], 1)
    mm, k = en.f[0].f
    if m.group(2) == "or_insert": v = a[1]
    elif m.group(2) == "or_insert_with": v = eng.call_value(a[1], [])
    else:
        t = split_top(g[0])[-1] if g else ""
        v = None
        for rx, fn in DEFAULT_HOOKS:
            if rx.match(t): v = fn(eng)
        if v is None:
            if t.startswith(("Vec<", "std::vec::Vec<")): v = VecV()
            else: v = eng.call("<%s as Default>::default" % t.split("<")[0].split("::")[-1], [], [])
    e = [k, v]; mm.e.append(e); return Slot(e, 1)
@model(r"^std::collections::(hash_map|btree_map)::VacantEntry::insert$")
def _(eng, m, g, a):
    mm, k = a[0].f; e = [k, a[1]]; mm.e.append(e); return Slot(e, 1)
@model(r"^std::collections::(hash_map|btree_map)::OccupiedEntry::get$")
def _(eng, m, g, a): return Slot(deref(a[0]).f[1], 1)
@model(r"^(HashMap|BTreeMap)::(values|into_values)$")
def _(eng, m, g, a):
    mm = deref(a[0]); byref = m.group(2) == "values"
    es = eng_order(eng, mm)
    return ListIt([Slot(e, 1) for e in es], False) if byref else ListIt([e[1] for e in es], False)
@model(r"^(HashMap|BTreeMap)::iter$")
def _(eng, m, g, a): return as_iter(eng, a[0])
@model(r"^(HashSet|BTreeSet)::iter$")
def _(eng, m, g, a): return ListIt(list(eng_order_set(eng, deref(a[0]))), True)
@model(r"^(HashSet|BTreeSet)::insert$")
def _(eng, m, g, a): return B(set_insert(eng, deref(a[0]), a[1]))
@model(r"^(HashSet|BTreeSet)::contains$")
def _(eng, m, g, a):
    s = deref(a[0])
    return B(z_or([eq_val(eng, y, a[1]) for y in s.items]))
@model(r"^(HashSet|BTreeSet)::remove$")
def _(eng, m, g, a):
    s = deref(a[0])
    for y in s.items:
        if eng.branch(eq_val(eng, y, a[1])): s.items.remove(y); return B(True)
    return B(False)
@model(r"^<(HashSet|BTreeSet)<.*> as Extend<.*>>::extend$")
def _(eng, m, g, a):
    s = deref(a[0])
    for x in drain(eng, as_iter(eng, a[1])): set_insert(eng, s, x)
    return UNIT

def ordering(c): return En("Ordering", c + 1, ["Less", "Equal", "Greater"][c + 1], [])
add_enum("Ordering", ["Less", "Equal", "Greater"])
@model(r"^<(String|str|&str) as Ord>::cmp$")
def _(eng, m, g, a):
    x, y = deref(a[0]).concrete(), deref(a[1]).concrete()
    if x is None or y is None: raise Unmodelled("cmp on symbolic strings")
    return ordering(-1 if x < y else (0 if x == y else 1))

@model(r"^<(.+) as TryInto<(.+)>>::try_into$")
def _(eng, m, g, a): return eng.call(f"<{m.group(2)} as TryFrom<{m.group(1)}>>::try_from", [], a)
@model(r"^<(.+) as Into<(.+)>>::into$")
def _(eng, m, g, a):
    if m.group(1) == m.group(2): return a[0]
    return eng.call(f"<{m.group(2)} as From<{m.group(1)}>>::from", [], a)
@model(r"^<(.+) as From<(.+)>>::from$")
def _(eng, m, g, a):
    if m.group(1) == m.group(2): return a[0]
    if m.group(1).endswith("String") and m.group(2) in ("&str", "&String", "&mut str"): return StrV(list(deref(a[0]).p))
    raise Pass()

# ------------------------------------------------------------------ panics
@model(r"^(?:core::panicking::|std::panicking::|std::rt::)?(panic_fmt|begin_panic_fmt)$")
def _(eng, m, g, a):
    try: msg = eng.call("format", [], [a[0]]); txt = "".join(p if isinstance(p, str) else "<sym>" for p in msg.p)
    except Exception: txt = "<unformattable>"
    raise Panic("panic: " + txt)
@model(r"^(?:core::panicking::|std::panicking::|std::rt::)?(panic|panic_display|panic_explicit|unreachable_display|begin_panic|panic_str|panic_nounwind|panic_const_\w+|panic_cannot_unwind)$")
def _(eng, m, g, a):
    x = deref(a[0]) if a else None
    raise Panic("panic: " + (x.concrete() or "<sym>" if isinstance(x, StrV) else m.group(1)))
@model(r"^(?:core::option::|core::result::)?(expect_failed|unwrap_failed)$")
def _(eng, m, g, a): raise Panic("panic: " + m.group(1))
@model(r"^(?:core::panicking::)?(panic_bounds_check|assert_failed|assert_failed_inner)$")
def _(eng, m, g, a): raise Panic("panic: " + m.group(1))
