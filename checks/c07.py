"""C07: type substitution is complete and parameter-correct."""
import os, sys
sys.path.insert(0, os.path.dirname(os.path.abspath(__file__)))
from gen_common import *
import c01

ID = "C07"
CRATES = ("typegen",)
FUNCTIONS = ["TypeSubstitutes::{new, insert, parse_path_substitution, parse_path_param_mapping, contains, for_path_with_params}", "for_path_with_params::replace_params", "substitutes::{replace_path_params_recursively, get_valid_from_substitution_type, get_valid_to_substitution_type, get_ident_from_type_path, path_segments, is_absolute, absolute_path}",
             "TypeGeneratorSettings::substitute", "TypeGenerator::{generate_types_mod, type_path_maybe_with_substitutes, resolve_type_path_recurse}"] + c01.FUNCTIONS[1:6]
MODELS = c01.MODELS + ["syn::Path / syn::Type structured model with in-place mutation through &mut iterators (A-syn)"]
ASSUMPTIONS = ["differential oracle independent of the substitution code: the registry is generated once without and once with the rule(s); the expected output is the unsubstituted output with the item removed and every reference rewritten by a Python implementation of the statement (pass-through / declared arguments with source parameter names replaced at any depth, every other token unchanged)",
               "rules: over the generic and non-generic item paths of the corpus registries; use sites are all positions the corpus uses those types at (direct fields, Vec/Option/tuple/array nesting, arguments of other generic items, resolved type paths)"]
BOUNDS = {"quick": {"rules per run": "1-2", "rule shapes": 22, "registries": "generics, modules, enum, reach, cow_generic, mybox"}, "thorough": {"rules per run": "1-2", "rule shapes": "7 generated shapes for every item path of every corpus registry with unique paths, plus a pair of rules for neighbouring paths", "registries": "all corpus registries with unique paths"}}
OUTSIDE = ["qualified-self, lifetimes/const arguments other than their documented rejection (C16)"]
GLOBAL_WITNESSES = ("Ok",)
G = "replay::corpus::generics::"

def src_params(src):
    ty = parse_type(P(tokenize(src)))
    return ty[2], [a[2][0] for a in ty[3]]
def rewrite(ty, rules, root):
    """apply the statement to a reader type AST"""
    if ty[0] == "tuple": return ("tuple", [rewrite(t, rules, root) for t in ty[1]])
    if ty[0] == "array": return ("array", rewrite(ty[1], rules, root), ty[2])
    if ty[0] == "paren": return ("paren", rewrite(ty[1], rules, root))
    if ty[0] == "ref": return ("ref", ty[1], ty[2], rewrite(ty[3], rules, root))
    if ty[0] != "path": return ty
    _, lead, segs, args = ty
    args2 = [rewrite(a, rules, root) if a[0] != "lifetime" else a for a in args]
    PRELUDE = {"Option": ["core", "option", "Option"], "Result": ["core", "result", "Result"], "BTreeMap": ["std", "collections", "BTreeMap"], "BTreeSet": ["std", "collections", "BTreeSet"],
               "BinaryHeap": ["std", "collections", "BinaryHeap"], "Range": ["core", "ops", "Range"], "RangeInclusive": ["core", "ops", "RangeInclusive"]}
    if (not lead and segs[0] == root) or (lead and any(len(r[0]) == 1 and PRELUDE.get(r[0][0]) == segs for r in rules)):
        for (spath, sparams, target, tparams_declared) in rules:
            if (not lead and segs[1:] == spath) or (lead and len(spath) == 1 and PRELUDE.get(spath[0]) == segs):
                tt = parse_type(P(tokenize(target)))
                if not sparams and not tt[3]: return ("path", tt[1], tt[2], args2)          # pass-through
                mapping = {n: (args2[i] if i < len(args2) else None) for i, n in enumerate(sparams)}
                return subst_idents(tt, mapping)
    return ("path", lead, segs, args2)
def subst_idents(ty, mapping):
    if ty[0] == "tuple": return ("tuple", [subst_idents(t, mapping) for t in ty[1]])
    if ty[0] == "array": return ("array", subst_idents(ty[1], mapping), ty[2])
    if ty[0] == "paren": return ("paren", subst_idents(ty[1], mapping))
    if ty[0] == "ref": return ("ref", ty[1], ty[2], subst_idents(ty[3], mapping))
    if ty[0] != "path": return ty
    _, lead, segs, args = ty
    if not lead and len(segs) == 1 and not args and segs[0] in mapping and mapping[segs[0]] is not None: return mapping[segs[0]]
    return ("path", lead, segs, [subst_idents(a, mapping) if a[0] != "lifetime" else a for a in args])

def item_view(module):
    out = {}
    for p, it in walk_items(module):
        if it["kind"] == "struct": fields = [(f["name"], f["ty"], codec_attr(f["attrs"], "compact") is not None) for f in it["fields"] if not is_marker(f)]; out[p] = ("struct", fields)
        else: out[p] = ("enum", [(v["name"], [(f["name"], f["ty"], codec_attr(f["attrs"], "compact") is not None) for f in v["fields"]]) for v in it["variants"] if v["name"] != "__Ignore"])
    return out
def mentions(ty, root, spath):
    return any(t[0] == "path" and not t[1] and t[2] == [root] + spath for t in walk_type(ty))

def compare(base_toks, sub_toks, base_res, sub_res, rules, root):
    probs = []
    try:
        _, bm = parse_root(base_toks); _, sm = parse_root(sub_toks)
    except ReaderError as e: return ["does not parse: %s" % e]
    bv, sv = item_view(bm), item_view(sm)
    spaths = [tuple(r[0]) for r in rules]
    for sp in spaths:
        if sp in sv: probs.append("substituted path %s is still defined in the output" % "::".join(sp))
    for p, it in bv.items():
        if p in spaths: continue
        if p not in sv: probs.append("item %s disappeared with the substitution" % "::".join(p)); continue
        def fl(fields): return [(n, rewrite(ty, rules, root), c) for n, ty, c in fields]
        want = (it[0], fl(it[1])) if it[0] == "struct" else (it[0], [(vn, fl(vf)) for vn, vf in it[1]])
        if sv[p] != want:
            probs.append("item %s: fields with the substitution are %r, the statement gives %r" % ("::".join(p), diff_first(sv[p], want)[0], diff_first(sv[p], want)[1]))
    for p in sv:
        if p not in bv: probs.append("item %s exists only with the substitution" % "::".join(p))
    for p, it in sv.items():
        tys = [ty for _, ty, _ in it[1]] if it[0] == "struct" else [ty for _, vf in it[1] for _, ty, _ in vf]
        for ty in tys:
            for sp in spaths:
                if mentions(ty, root, list(sp)): probs.append("item %s still references the substituted path %s" % ("::".join(p), "::".join(sp)))
    for i, b in base_res.items():
        s = sub_res.get(i)
        if b[0] != "Ok" or s is None or s[0] != "Ok": continue
        try:
            want = rewrite(parse_type(P(b[1])), rules, root); got = parse_type(P(s[1]))
        except ReaderError as e: probs.append("resolved path of id %d does not parse: %s" % (i, e)); continue
        if got != want: probs.append("resolve_type_path(%d) gives %r, the statement gives %r" % (i, got, want))
    return probs
def diff_first(a, b):
    if a[0] != b[0]: return a[0], b[0]
    if a[0] == "struct":
        for x, y in zip(a[1], b[1]):
            if x != y: return x, y
    else:
        for (vn, vf), (wn, wf) in zip(a[1], b[1]):
            for x, y in zip(vf, wf):
                if x != y: return (vn, x), (wn, y)
    return a, b

RULES = [  # (source, target)
    (G + "G", "::ext::Plain"), (G + "G<A>", "::ext::B<A>"), (G + "G<A>", "::ext::B<::w::W<A>, ::core::primitive::u64>"), (G + "G<A>", "::ext::B<::core::primitive::u8>"),
    (G + "G<A>", "::ext::B<A, A>"), (G + "G<A>", "::ext::B<::w::W<::w::V<A>>, A>"), (G + "G<T>", "::ext::B<T, ::x::T, y::T, T<::core::primitive::u8>>"),
    (G + "G2<A, B>", "::ext::P<B, A>"), (G + "G2<A>", "::ext::Q<A>"), (G + "G2<A, B>", "::ext::OnlyB<B>"), (G + "G2<A, B>", "::ext::NestB<::w::W<B>, ::core::primitive::u8>"), (G + "G2<A, B, C>", "::ext::R<C, B, A>"), (G + "G2", "::ext::P2"), (G + "G2", "::ext::P3<::core::primitive::bool>"),
    (G + "G<A>", "::ext::B<::w::W<(A, ::core::primitive::u8)>>"), (G + "G<A>", "::ext::B<::w::W<[A; 2]>>"), (G + "G<A>", "::ext::B<::w::W<&'static A>>"),
    (G + "GE<X>", "crate::ext::E<X>"), (G + "Nested<T>", "::ext::N<T>"), (G + "Nested", "::ext::N0"),
]
OTHER = {"enum": [("replay::corpus::basic::Tup", "::ext::Tup"), ("replay::corpus::basic::E", "::ext::E2")],
         "modules": [(G + "inner::In", "::ext::In"), (G + "inner::deep::Deep<T>", "::ext::D<T, T>"), ("replay::corpus::basic::Tup", "::ext::T2")],
         "reach": [("replay::corpus::reach::Foo<X>", "::ext::F<::alloc::vec::Vec<X>>"), ("replay::corpus::reach::A1", "::ext::A"), ("replay::corpus::reach::Inner", "::ext::I")],
         "cow_generic": [(G + "G<A>", "::ext::B<A>"), (G + "CowG<Z>", "::ext::C<Z>")],
         "mybox": [(G + "MyBox<T>", "::ext::MB<T>"), (G + "MyBox", "::ext::MB0")],
         # source parameters spelled like the generator's own parameter names, used below a parent that hands its parameters on in swapped order
         "swapper": [(G + "Pair<_0, _1>", "::ext::NewPair<_0, _1>"), (G + "Pair<_1, _0>", "::ext::NewPair<_0, _1>"), (G + "Pair<Hash, Hashing>", "::ext::NP<Hashing, ::w::W<Hash>>"), (G + "Pair<A, B>", "::ext::OnlySecond<B>")],
         "skipnest": [(G + "Measured<T>", "::ext::M<T>"), (G + "Reading<X>", "::ext::R<X, X>")],
         "calls": [("replay::corpus::calls::Call", "::ext::Call"), ("replay::corpus::basic::Tup", "::ext::T")],
         "containers": [("Option<T>", "::my::Opt<T>"), ("Result<A, B>", "::my::Res<B, A>"), ("Option", "::my::Opt0")],
         "collections": [("BTreeMap<K, V>", "::my::KeyedVec<K, V>"), ("BTreeSet", "::my::Set"), ("Range<I>", "::my::R<I, I>"), ("BinaryHeap<T>", "::my::Heap<::alloc::vec::Vec<T>>")]}

def make_family(name, reg0, rule_list, how="subst", STD=STD):
    ids = list(range(len(reg0)))
    def mk(eng): return regdsl._clone(reg0)
    def run(eng, reg):
        res = {"violations": []}
        base = STD; sub = STD + Settings(["%s %s => %s" % (how, s, t) for s, t in rule_list])
        ob, _, _ = generate(eng, regdsl._clone(reg), base, resolve=ids)
        os_, _, _ = generate(eng, regdsl._clone(reg), sub, resolve=ids)
        case = replay_gen_case(reg, sub, resolve=ids); cbase = replay_gen_case(reg, base, resolve=ids)
        if ob["result"] != "Ok": res["outcome"] = "base-Err"; return res
        if os_["result"] != "Ok":
            res["outcome"] = "Err:" + os_["err"][0]
            res["violations"].append({"what": "generation with the substitution fails: %s" % (os_["err"],), "case": case, "cbase": cbase, "kind": "err", "rules": rule_list}); return res
        res["outcome"] = "Ok"
        rules = []
        for s, t in rule_list:
            sp, spar = src_params(s); rules.append((sp, spar, t, None))
        for p in compare(ob["tokens"], os_["tokens"], ob["resolve"], os_["resolve"], rules, base.root()):
            res["violations"].append({"what": "%s | rules %s" % (p, rule_list), "case": case, "cbase": cbase, "kind": "diff", "rules": rule_list})
        exp = {"result": "Ok", "tokens": plain_tok_str(os_["tokens"])}
        res["validate"] = dict(case, expect=exp)
        res["sample"] = {"rules": rule_list}
        return res
    def on_panic(eng, reg, msg):
        sub = STD + Settings(["%s %s => %s" % (how, s, t) for s, t in rule_list])
        return {"outcome": "panic", "violations": [{"what": "panic: %s | rules %s" % (msg, rule_list), "case": replay_gen_case(reg0, sub), "cbase": None, "kind": "panic", "rules": rule_list}]}
    return Family(name, mk, run, target_prefixes=1, on_panic=on_panic)

def generated_rules(reg):
    """for every item path of the registry: a family of rule shapes fitted to its number of parameters"""
    import c08
    out = []
    for p in c08.item_paths(reg):
        t = next(t for t in reg if t["path"] == p); k = len([1 for _, x in t["params"] if x is not None]); src = "::".join(p)
        names = ["A", "B", "C"][:k]
        out.append((src, "::ext::N0"))
        if k:
            full = "%s<%s>" % (src, ", ".join(names))
            out += [(full, "::ext::N1<%s>" % ", ".join(reversed(names))), (full, "::ext::N2<::w::W<%s>, ::core::primitive::u8>" % names[0]),
                    (full, "::ext::N3<(%s, %s)>" % (names[0], names[-1]) if False else "::ext::N3<::w::T<(%s, %s)>>" % (names[0], names[-1])), (full, "::ext::N4"),
                    ("%s<%s>" % (src, names[0]), "::ext::N5<%s, %s>" % (names[0], names[0])), ("%s<%s, Z>" % (src, ", ".join(names)), "::ext::N6<Z, %s>" % names[0])]
    return out
def families(eng, tier, seed):
    C = corpus(); fams = []
    if tier == "thorough":
        for n in C:
            if n in ("versions", "versions_hdr", "versions_hdr_mirror", "assoc_skip", "assoc_twins", "empty_enum", "duration", "phantom_field"): continue     # same-path registries fail generation before any rule applies
            gr = generated_rules(C[n])
            for k, r in enumerate(gr): fams.append(make_family("gen-rule-%s-%d" % (n, k), C[n], [r]))
            # pairs of rules over different source paths (one rule must not disturb the other)
            byp = {}
            for r in gr: byp.setdefault("::".join(src_params(r[0])[0]), []).append(r)
            keys = list(byp)
            for a in range(len(keys) - 1):
                ra = byp[keys[a]][min(1, len(byp[keys[a]]) - 1)]; rb = byp[keys[a + 1]][-1]
                fams.append(make_family("gen-rules-%s-%d+%d" % (n, a, a + 1), C[n], [ra, rb]))
    for k, (s, t) in enumerate(RULES): fams.append(make_family("rule-generics-%d" % k, C["generics"], [(s, t)]))
    # custom alloc crate path: resolved arguments that mention Vec/String/Box must be rendered with it
    ALLOC = Settings(["compact_path ::parity_scale_codec::Compact", "bits_path ::scale_bits::DecodedBits", "codec_attrs", "alloc ::my_alloc", "mod_name rt"])
    for k, r in enumerate(RULES):
        if r[0].startswith((G + "G<", G + "GE<", G + "Nested<", G + "G2<")): fams.append(make_family("rule-customalloc-generics-%d" % k, C["generics"], [r], STD=ALLOC))
    fams.append(make_family("rule-customalloc-reach", C["reach"], [("replay::corpus::reach::Foo<X>", "::ext::F<::w::W<X>, X>")], STD=ALLOC))
    fams.append(make_family("rule-customalloc-cow", C["cow_generic"], [(G + "CowG<Z>", "::ext::C<Z>"), (G + "G<A>", "::ext::B<A>")][:1], STD=ALLOC))
    # types with skipped parameters: the declared source parameter has no resolved argument
    A = "replay::corpus::assoc::"
    fams.append(make_family("rule-skipped-param", C["assoc_skip"], [(A + "Hdr<T>", "::ext::H<T>")]))
    fams.append(make_family("rule-skipped-param-passthrough", C["assoc_skip"], [(A + "Hdr", "::ext::H0")]))
    fams.append(make_family("rule-noskip-param", C["assoc_noskip"], [(A + "HdrNoSkip<T>", "::ext::H<T, T>")]))
    for k in (0, 1, 7, 18): fams.append(make_family("rule-ifabsent-generics-%d" % k, C["generics"], [RULES[k]], how="subst_if_absent"))
    for k in (2, 8, 19): fams.append(make_family("rule-extend-generics-%d" % k, C["generics"], [RULES[k]], how="subst_extend"))
    pairs = [(0, 7), (2, 8), (1, 18), (6, 12), (3, 17)]
    for a, b in pairs:
        if src_params(RULES[a][0])[0] != src_params(RULES[b][0])[0]: fams.append(make_family("rules-generics-%d+%d" % (a, b), C["generics"], [RULES[a], RULES[b]]))
    for n, rl in OTHER.items():
        for k, r in enumerate(rl): fams.append(make_family("rule-%s-%d" % (n, k), C[n], [r]))
        if len(rl) >= 2: fams.append(make_family("rules-%s-all" % n, C[n], [r for r in rl if True][:2] if src_params(rl[0][0])[0] != src_params(rl[1][0])[0] else [rl[0]]))
    return fams

def confirm(v, real):
    if "panic" in real: return True
    if v["kind"] == "panic": return False
    if v["kind"] == "err": return real.get("result") == "Err"
    if real.get("result") != "Ok": return False
    rb = run_replay([v["cbase"]])[0]
    if rb.get("result") != "Ok": return False
    rules = []
    for s, t in v["rules"]:
        sp, spar = src_params(s); rules.append((sp, spar, t, None))
    def res(r): return {int(k[8:]): (("Ok", tokenize(val)) if not val.startswith("Err ") else ("Err", val)) for k, val in r.items() if k.startswith("resolve_")}
    return bool(compare(tokenize(rb["tokens"]), tokenize(real["tokens"]), res(rb), res(real), rules, "types"))
def classify(v):
    w = v["what"]
    if v["kind"] == "panic": return "panic"
    rl = " ".join(t for _, t in v.get("rules", []))
    if ("(A" in rl or "[A" in rl or "&'static A" in rl) and ("the statement gives" in w): return "param-inside-tuple-array-reference-not-replaced"
    for k in ("still defined", "still references", "disappeared", "exists only", "resolve_type_path", "fields with the substitution", "fails"):
        if k in w: return k
    return "other"
if __name__ == "__main__":
    main(sys.modules[__name__])
