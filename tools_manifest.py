#!/usr/bin/env python3
"""Regenerates MANIFEST.json from the per-check metadata below (kept in one place so it stays valid)."""
import json, os
V = os.path.dirname(os.path.abspath(__file__))
props = [json.loads(l) for l in open(os.path.join(V, "properties.jsonl"))]
CLAIMED = json.load(open(os.path.join(V, "claims.json")))
checks = []; na = []
for p in props:
    c = CLAIMED.get(p["id"])
    if c and c.get("claimed"):
        checks.append({
            "property_id": p["id"],
            "quick_cmd": "./check %s --tier quick" % p["id"],
            "thorough_cmd": "./check %s --tier thorough" % p["id"],
            "evidence_file": "/verif/evidence/%s.json" % p["id"],
            "replay_cmd_template": "./check %s --replay {path}" % p["id"],
            "engine": "mirsym",
            "level_claimed": {"category": "model_checking", "text": c["text"], "design_ref": c.get("design_ref", "DESIGN.md section 4 " + p["id"])},
            "level_note": c["note"],
            "technique": c.get("technique", "bounded symbolic execution of rustc MIR with z3 (path-forking interpreter); counterexamples replayed on the real build"),
        })
    else:
        na.append({"property_id": p["id"], "reason": (c or {}).get("reason", "check not built yet (engine stage pending); see DESIGN.md section 5.1")})
m = {
    "version": 1,
    "setup_cmd": "./setup.sh",
    "hooks": {"guard": "none", "enable": "no source hooks: the engine reads rustc MIR (private items included) and the replay binary uses the public API only",
              "baseline_off_cmd": "cd /repo && cargo test --workspace --no-fail-fast --offline", "source_commits": [], "add_only": True},
    "engines": [{"name": "mirsym", "path": "/verif/mirsym", "serves_properties": [c["property_id"] for c in checks],
                 "kind_free_text": "symbolic executor over `cargo +nightly rustc -Zunpretty=mir` dumps of /repo's crates (regenerated every run), z3 for branch feasibility and oracle obligations, Python library models, Rust replay binary against the real crates"}],
    "checks": checks,
    "not_applicable": na,
    "notes": "Exit codes of ./check: 0 = all obligations discharged; 1 = VIOLATION confirmed on the real build; 2 = INCONCLUSIVE (unmodelled callee, solver unknown, engine/real disagreement, vacuity guard) - never reported as success. Known findings (known_findings.json): C04 and C03 digit-suffix collision of the de-duplication utility, C12 char examples not encodable; each prints a KNOWN-FINDING line and exits 0. seeded/ holds 181 confirmed seeded changes with the verdict of each check (tools/seeded_run.py), refactorings/ six behaviour-preserving refactorings on which every check must exit 0 (tools/refactor_run.sh). Thorough tiers take 10 s - 25 min each (C12 longest).",
}
json.dump(m, open(os.path.join(V, "MANIFEST.json"), "w"), indent=1)
print("claimed:", [c["property_id"] for c in checks])
