#!/bin/bash
# try_mutant.sh <patch.diff> <ID> [tier] : applies the patch to /repo, runs the check, reverts; prints exit code
P="$1"; ID="$2"; T="${3:-quick}"
cd /repo && git apply "$P" || { echo "patch does not apply"; exit 9; }
cd /verif && ./check "$ID" --tier "$T" > "/tmp/try_${ID}_$(basename $(dirname $P)).log" 2>&1; rc=$?
git -C /repo checkout -- .
echo "MUTANT $P check=$ID exit=$rc"; tail -4 "/tmp/try_${ID}_$(basename $(dirname $P)).log"
