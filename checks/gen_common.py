"""Shared pieces of the generator-based checks: corpus loading, settings application (engine + replay form),
running generate_types_mod + emission through the MIR interpreter, reading the result."""
import os, sys, json, itertools
sys.path.insert(0, os.path.join(os.path.dirname(os.path.abspath(__file__)), "..", "mirsym"))
sys.path.insert(0, os.path.join(os.path.dirname(os.path.abspath(__file__)), ".."))
from harness import *
import regdsl
from regdsl import *
from models_tok import TS, tok_str as eng_tok_str, lex, IdentV, SynV
from models_syn import parse_kind
from oracles.tokens import *
from oracles.tokens import tok_str as plain_tok_str
from oracles.wire import *

_CORPUS = {}
def corpus():
    """registries derived by the real scale-info from the Rust types in replay/src/corpus.rs (rebuilt against /repo)"""
    if not _CORPUS:
        r = run_replay([{"op": "corpus"}])[0]
        for k, v in r.items():
            if k.startswith("reg_"): _CORPUS[k[4:]] = regdsl.decode(bytes.fromhex(v))
    return _CORPUS

_POLKA = []
def polkadot():
    """the registry of /repo/artifacts/polkadot_metadata.scale (real chain metadata), decoded through the replay binary"""
    if not _POLKA:
        r = run_replay([{"op": "polkadot"}])[0]
        _POLKA.append(regdsl.decode(bytes.fromhex(r["reg"])))
    return _POLKA[0]
def syn_path(s): return parse_kind("Path", to_engine_tokens(tokenize(s)))
def syn_type_path(s): return parse_kind("TypePath", to_engine_tokens(tokenize(s)))

class Settings:
    """ordered list of directives, applicable both to the engine and to the replay binary"""
    def __init__(self, directives=()): self.d = list(directives)
    def __add__(self, o): return Settings(self.d + list(o.d if isinstance(o, Settings) else o))
    def get(self, k, default=None):
        for d in self.d:
            kk, _, rest = d.partition(" ")
            if kk == k: return rest
        return default
    def has(self, k): return any(d.split(" ")[0] == k for d in self.d)
    def root(self): return self.get("mod_name", "types")
    def alloc_root(self):
        a = self.get("alloc")
        return tuple(a.replace(" ", "").strip(":").split("::")) if a else ("std",)
    def replay(self): return list(self.d)
    def apply(self, eng):
        s = eng.call("TypeGeneratorSettings::new", [], [])
        for d in self.d:
            k, _, rest = d.partition(" ")
            if k == "mod_name": s = eng.call("TypeGeneratorSettings::type_mod_name", [], [s, Slot([StrV([rest])], 0)])
            elif k == "compact_path": s = eng.call("TypeGeneratorSettings::compact_type_path", [], [s, syn_path(rest)])
            elif k == "bits_path": s = eng.call("TypeGeneratorSettings::decoded_bits_type_path", [], [s, syn_path(rest)])
            elif k == "compact_as_path": s = eng.call("TypeGeneratorSettings::compact_as_type_path", [], [s, syn_path(rest)])
            elif k == "docs": s = eng.call("TypeGeneratorSettings::should_gen_docs", [], [s, B(rest == "1")])
            elif k == "codec_attrs": s = eng.call("TypeGeneratorSettings::insert_codec_attributes", [], [s])
            elif k == "alloc": s.f[8] = En("AllocCratePath", VARIANTS[("AllocCratePath", "Custom")], "Custom", [syn_path(rest)])
            elif k == "derive_all": s = eng.call("TypeGeneratorSettings::add_derives_for_all", [], [s, VecV([syn_path(rest)])])
            elif k in ("derive_for", "derive_rec"):
                a, b = rest.split(" => ")
                eng.call("DerivesRegistry::add_derives_for", [], [Slot(s.f, 2), syn_type_path(a), VecV([syn_path(b)]), B(k == "derive_rec")])
            elif k == "attrtok_all":
                eng.call("DerivesRegistry::add_attributes_for_all", [], [Slot(s.f, 2), VecV([attr_value(rest)])])
            elif k in ("attrtok_for", "attrtok_rec"):
                a, b = rest.split(" => ")
                eng.call("DerivesRegistry::add_attributes_for", [], [Slot(s.f, 2), syn_type_path(a), VecV([attr_value(b)]), B(k == "attrtok_rec")])
            elif k == "subst":
                a, b = rest.split(" => ")
                s = eng.call("TypeGeneratorSettings::substitute", [], [s, syn_path(a), syn_path(b)])
            elif k in ("subst_if_absent", "subst_extend"):
                a, b = rest.split(" => ")
                ap = eng.call("absolute_path", [], [syn_path(b)])
                if ap.idx == 1: raise Panic("absolute_path rejected " + b)
                if k == "subst_if_absent": r = eng.call("TypeSubstitutes::insert_if_not_exists", [], [Slot(s.f, 3), syn_path(a), ap.f[0]])
                else: r = eng.call("TypeSubstitutes::extend", [], [Slot(s.f, 3), VecV([Agg("()", [syn_path(a), ap.f[0]])])])
                if r.idx == 1: raise Panic("substitute rejected: " + rest)
            else: raise ValueError("settings directive " + d)
        return s

def to_engine_tokens(toks):
    out = []
    for t in toks:
        if t[0] == "g": out.append(("g", t[1], TS(to_engine_tokens(t[2].t))))
        else: out.append(t)
    return out
def attr_value(text):
    """syn::Attribute for `#[text]` as the engine's opaque syntax node"""
    inner = to_engine_tokens(tokenize(text))
    return SynV("Attribute", [("p", "#", False), ("g", "Bracket", TS(inner))])

STD = Settings(["compact_path ::parity_scale_codec::Compact", "bits_path ::scale_bits::DecodedBits", "codec_attrs"])

def concretize_tokens(toks, m):
    """engine tokens with symbolic literal leaves -> plain tokens under model m"""
    out = []
    for t in toks:
        if t[0] == "g": out.append(("g", t[1], TSL(concretize_tokens(t[2].t, m))))
        elif t[0] == "l" and not isinstance(t[1], str):
            x = t[1]
            if x[0] == "lit":
                v = x[1].v if not isinstance(x[1].v, z3.ExprRef) else m.eval(x[1].v, model_completion=True).as_long()
                ty = x[2] if len(x) > 2 else ""
                if ty[:1] == "i" and ty in INT_BITS and v >> (INT_BITS[ty] - 1): out.append(("p", "-", False)); v = (1 << INT_BITS[ty]) - v
                out.append(("l", str(v) + ty))
            elif x[0] == "charlit":
                v = x[1].v if not isinstance(x[1].v, z3.ExprRef) else m.eval(x[1].v, model_completion=True).as_long(); out.append(("l", "'" + chr(v) + "'"))
            else: raise ValueError("symbolic literal %r" % (x,))
        elif t[0] == "i" and not isinstance(t[1], str) and t[1][0] == "boollit":
            v = t[1][1].v; v = v if isinstance(v, bool) else z3.is_true(m.eval(v, model_completion=True)); out.append(("i", "true" if v else "false"))
        else: out.append(t)
    return out

def generate(eng, reg, settings, dedup=False, resolve=()):
    """run the real pipeline in the interpreter. reg: DSL registry. Returns dict(result, tokens|err, resolve{id: tokens})"""
    regv = to_engine(reg)
    s = settings.apply(eng)
    out = {}
    if dedup:
        r = eng.call("ensure_unique_type_paths", [], [Slot([regv], 0)])
        if r.idx == 1:
            out.update(result="Err", stage="dedup", err=err_parts(r.f[0]), resolve={}); return out, regv, s
        out["paths"] = read_paths(regv)
    g = eng.call("TypeGenerator::new", [], [Slot([regv], 0), Slot([s], 0)])
    m = eng.call("TypeGenerator::generate_types_mod", [], [Slot([g], 0)])
    if m.idx == 1:
        out.update(result="Err", err=err_parts(m.f[0]))
    else:
        ts = eng.call("<ModuleIR as ToTokensWithSettings>::to_token_stream", [], [Slot(m.f, 0), Slot([s], 0)])
        out.update(result="Ok", tokens=ts.t, module_ir=m.f[0])
    out["resolve"] = {}
    for i in resolve:
        tp = eng.call("TypeGenerator::resolve_type_path", [], [Slot([g], 0), Sc("u32", i)])
        if tp.idx == 1: out["resolve"][i] = ("Err", err_parts(tp.f[0]))
        else:
            tts = eng.call("<TypePath as ToTokensWithSettings>::to_token_stream", [], [Slot(tp.f, 0), Slot([s], 0)])
            out["resolve"][i] = ("Ok", tts.t)
    out["gen"] = g
    return out, regv, s

def read_paths(regv):
    """paths of all entries of an engine-side registry value (after in-place de-duplication)"""
    return [[deref(x).concrete() for x in deref(t).f[1].f[0].f[0].items] for t in regv.f[0].items]
def with_paths(reg, paths):
    reg = regdsl._clone(reg)
    for t, p in zip(reg, paths): t["path"] = list(p)
    return reg

def err_parts(e):
    """(variant name, payload as printable) of a TypegenError engine value"""
    name = e.name
    def pv(x):
        x = deref(x)
        if isinstance(x, StrV): return x.concrete() if x.concrete() is not None else "<sym>"
        if isinstance(x, Sc): return x.v
        return None
    if name == "TypeNotFound": return (name, e.f[0].v)
    if name == "RegistryTypeIdsInvalid": return (name, (e.f[0].v, e.f[1].v))
    if name == "DuplicateTypePath": return (name, pv(e.f[0]))
    return (name, None)

def replay_gen_case(reg, settings, dedup=False, resolve=()):
    c = {"op": "gen", "reg": regdsl.encode(reg).hex(), "set": settings.replay()}
    if dedup: c["dedup"] = "1"
    if resolve: c["resolve"] = [str(i) for i in resolve]
    return c

def read_real_gen(real, settings):
    """parse the real build's generation output into (root name, module) ; raises ReaderError"""
    return parse_root(tokenize(real["tokens"]))

def user_ids(reg):
    """ids of entries that get an item (namespaced composite/variant)"""
    return [i for i, t in enumerate(reg) if len(t["path"]) >= 2 and t["def"][0] in ("composite", "variant")]

def symbolize_leaves(eng, reg, tag="s", tie_paths=True):
    """replace every array length and variant index of a concrete DSL registry by constrained symbolic terms:
    indices pairwise distinct within an enum (scale-info guarantees it); with tie_paths, same-path enums share their
    index variables and arrays sitting at the same position of same-path definitions share their length variable
    (instantiations of one definition have one set of indices and lengths); arrays over the same element id with
    different variables keep distinct lengths (scale-info interns identical types). Returns the new registry."""
    reg0 = reg; reg = regdsl._clone(reg); n = 0; shared = {}
    # array position keys
    keys = {}
    def walk(j, key, seen):
        if j in seen or not isinstance(j, int) or j >= len(reg0): return
        t = reg0[j]; d = t["def"]
        if t["path"] and d[0] in ("composite", "variant"): return
        seen = seen | {j}
        if d[0] == "array": keys.setdefault(j, []).append(key); walk(d[2], key + ("[]",), seen)
        elif d[0] in ("sequence", "compact"): walk(d[1], key + (d[0],), seen)
        elif d[0] == "tuple":
            for k, x in enumerate(d[1]): walk(x, key + (k,), seen)
    for i, t in enumerate(reg0):
        d = t["def"]
        if not t["path"]: continue
        pk = tuple(t["path"]) if tie_paths else (i,)
        if d[0] == "composite":
            for fi, f in enumerate(d[1]): walk(f["ty"], (pk, None, fi), frozenset())
        elif d[0] == "variant":
            for vi, v in enumerate(d[1]):
                for fi, f in enumerate(v["fields"]): walk(f["ty"], (pk, vi, fi), frozenset())
        for pi, (_, p) in enumerate(t["params"]):
            if p is not None: walk(p, (pk, "param", pi), frozenset())
    var_of_key = {}; arr_var = {}
    for j, t in enumerate(reg):
        d = t["def"]
        if d[0] != "array": continue
        ks = keys.get(j, [("lone", j)])
        v = next((var_of_key[k] for k in ks if k in var_of_key), None)
        if v is None: v = z3.BitVec("%s_len%d" % (tag, n), 32); n += 1
        for k in ks: var_of_key.setdefault(k, v)
        arr_var[j] = v; t["def"] = ("array", v, d[2])
    byelem = {}
    for j, v in arr_var.items(): byelem.setdefault(reg[j]["def"][2], []).append(v)
    for vs in byelem.values():
        uniq = []
        for v in vs:
            if not any(v.eq(u) for u in uniq): uniq.append(v)
        if len(uniq) > 1: eng.assume(z3.Distinct(*uniq))
    for t in reg:
        d = t["def"]
        if d[0] == "variant" and t["path"] not in (["Option"], ["Result"]):
            idx = []
            for pos, v_ in enumerate(d[1]):
                key = (tuple(t["path"]), pos, v_["name"])
                if tie_paths and key in shared: x = shared[key]
                else:
                    x = z3.BitVec("%s_idx%d" % (tag, n), 8); n += 1; shared[key] = x
                v_["index"] = x; idx.append(x)
            if len(idx) > 1: eng.assume(z3.Distinct(*idx))
    return reg

def faithful_check(eng, reg, settings, gen_out, ids, depth=None):
    """C01 oracle: for each id, the type the generator names for it has the registry's shape.
    Returns list of (id, message) for ids that are NOT provably faithful on this path, with a model if symbolic."""
    depth = depth or (min(len(reg) + 2, 8) if len(reg) <= 60 else 5)
    name, module = parse_root(gen_out["tokens"])
    ts = TokShapes(name, module, settings.get("compact_path"), settings.get("bits_path"), settings.alloc_root())
    rs = RegShapes(reg)
    bad = []
    for i in ids:
        r = gen_out["resolve"].get(i)
        if r is None or r[0] != "Ok":
            bad.append((i, "resolve_type_path(%d) failed: %r" % (i, r), None)); continue
        try:
            ty = parse_type(P(r[1]))
            a = ts.shape(ty, {}, depth); b = rs.shape(i, depth)
            e = shape_eq(a, b)
        except (ShapeError, ReaderError) as ex:
            bad.append((i, "type named for id %d (%s): %s" % (i, plain_tok_str(strip_sym(r[1])), ex), None)); continue
        if e is True: continue
        if e is False:
            bad.append((i, "id %d named %s has a different shape: %s" % (i, plain_tok_str(strip_sym(r[1])), shape_diff(a, b)), None)); continue
        if not eng.holds(e):
            m = eng.model(z3.Not(e))
            bad.append((i, "id %d named %s differs in a numeric leaf (index/length)" % (i, plain_tok_str(strip_sym(r[1]))), m))
    return bad

def strip_sym(toks):
    out = []
    for t in toks:
        if t[0] == "g": out.append(("g", t[1], TSL(strip_sym(t[2].t))))
        elif t[0] in ("l", "i") and not isinstance(t[1], str): out.append((t[0], "<sym>"))
        else: out.append(t)
    return out

def faithful_check_concrete(reg, settings, real, ids, depth=None):
    """same oracle on the real build's printed output (concrete registry); returns list of messages"""
    depth = depth or (min(len(reg) + 2, 8) if len(reg) <= 60 else 5)
    if real.get("result") != "Ok": return []
    try:
        name, module = parse_root(tokenize(real["tokens"]))
    except ReaderError as ex:
        return ["output does not parse: %s" % ex]
    ts = TokShapes(name, module, settings.get("compact_path"), settings.get("bits_path"), settings.alloc_root())
    rs = RegShapes(reg); bad = []
    for i in ids:
        r = real.get("resolve_%d" % i)
        if r is None or r.startswith("Err "): bad.append("resolve_type_path(%d): %s" % (i, r)); continue
        try:
            ty = parse_type(P(tokenize(r)))
            a = ts.shape(ty, {}, depth); b = rs.shape(i, depth)
            e = shape_eq(a, b)
        except (ShapeError, ReaderError) as ex:
            bad.append("type named for id %d (%s): %s" % (i, r, ex)); continue
        if e is not True: bad.append("id %d named %s has a different shape: %s" % (i, r, shape_diff(a, b)))
    return bad
