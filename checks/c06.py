"""C06: output is a deterministic function of registry and settings-as-sets."""
import os, sys, itertools
sys.path.insert(0, os.path.dirname(os.path.abspath(__file__)))
from gen_common import *
import c01, c08

ID = "C06"
CRATES = ("typegen",)
FUNCTIONS = ["Derives::to_tokens (both sorts)", "DerivesRegistry::{add_*, flatten_recursive_derives}", "FlatDerivesRegistry::resolve", "utils::ensure_unique_type_paths", "TypeSubstitutes::insert", "ModuleIR::to_tokens (BTreeMap order)"] + c01.FUNCTIONS[:6]
MODELS = c01.MODELS + ["HashMap/HashSet iteration order = insertion order, reversed order, or an arbitrary permutation chosen through the fork mechanism (stable for an unmodified container)"]
ASSUMPTIONS = ["'another process / another hash seed' is modelled as another iteration order of every HashMap/HashSet on the path; there is no other source of nondeterminism on the call path (no env, time, address-dependent ordering: any such callee would be reported as unmodelled)",
               "each path runs the pipeline twice: once with insertion order and once with the alternative order (forked permutations on the small registries, reversed order on the large ones) and compares the results"]
BOUNDS = {"quick": {"forked permutations": "sets/maps with <= 3 entries on 2-item registries", "reversed order": "all corpus registries", "registration orders": "all permutations of 4 commuting directives"}, "thorough": {"forked permutations": "<= 3 entries on <= 3-item registries", "registration orders": "all permutations of 5 directives"}}
OUTSIDE = ["sets larger than the bound under arbitrary permutations (covered only by the reversed order)"]
GLOBAL_WITNESSES = ("Ok", "dedup")

RICH = ["derive_all Dz", "derive_all Da", "derive_all ::m::Dm", "attrtok_all serde(b)", "attrtok_all serde(a)", "attrtok_all allow(x)"]
def sorted_problems(toks):
    """derive and attribute lists sorted by token string and free of duplicates"""
    probs = []
    try: name, module = parse_root(toks)
    except ReaderError as e: return ["does not parse: %s" % e]
    for p, it in walk_items(module):
        ds = derive_list(it["attrs"])
        if ds != sorted(ds) or len(set(ds)) != len(ds): probs.append("derive list of %s is not sorted/duplicate-free: %s" % ("::".join(p), ds))
        if len(attr_named(it["attrs"], "derive")) > 1: probs.append("more than one derive attribute on %s" % "::".join(p))
        others = ["# [" + plain_tok_str(a) + "]" for a in it["attrs"] if a and a[0][1] not in ("derive", "doc")]
        if others != sorted(others) or len(set(others)) != len(others): probs.append("attribute list of %s is not sorted/duplicate-free: %s" % ("::".join(p), others))
    return probs

def gen_twice(name, reg0, directives, mode, dedup=False, perms=None):
    def mk(eng):
        if perms is None: return list(directives)
        k = eng.choose([(i, True) for i in range(len(perms))])
        return [directives[j] for j in perms[k]]
    def run(eng, dirs2):
        base = ["compact_path ::c::Compact", "bits_path ::b::Bits", "codec_attrs"]
        res = {"violations": [], "outcome": []}
        eng.hash_order = "insertion"
        st1 = Settings(base + list(directives))
        o1, rv1, _ = generate(eng, regdsl._clone(reg0), st1, dedup=dedup)
        eng.hash_order = mode
        st2 = Settings(base + list(dirs2))
        o2, rv2, _ = generate(eng, regdsl._clone(reg0), st2, dedup=dedup)
        eng.hash_order = "insertion"
        case = replay_gen_case(reg0, st2, dedup=dedup); case1 = replay_gen_case(reg0, st1, dedup=dedup)
        def render(o):
            if o["result"] == "Err": return "Err:%s:%s" % (o["err"][0], o["err"][1])
            return plain_tok_str(o["tokens"]) + ("|paths=" + repr(o.get("paths")) if "paths" in o else "")
        a, b = render(o1), render(o2)
        res["outcome"].append("Ok" if o1["result"] == "Ok" else "Err:" + o1["err"][0])
        if dedup and "paths" in o1 and o1["paths"] != read_paths(to_engine(reg0)): res["outcome"].append("dedup")
        if a != b:
            k = next((j for j in range(min(len(a), len(b))) if a[j] != b[j]), 0)
            res["violations"].append({"what": "output differs between two iteration/registration orders: ...%s... vs ...%s... | directives %s vs %s" % (a[max(0, k-80):k+80], b[max(0, k-80):k+80], directives, dirs2),
                                      "case": case, "case1": case1, "kind": "nondeterminism"})
        if o2["result"] == "Ok":
            for p in sorted_problems(o2["tokens"]): res["violations"].append({"what": p, "case": case, "kind": "sorted"})
        if hash(tuple(eng.decisions)) % 4 == 0:
            exp = {"result": o2["result"]}
            if o2["result"] == "Ok": exp["tokens"] = plain_tok_str(o2["tokens"])
            res["validate"] = dict(case, expect=exp)
            res["sample"] = {"directives": dirs2, "hash_order": mode}
        return res
    return Family(name, mk, run, target_prefixes=48 if mode == "fork" else 1)

def validation_family(reg0, mode):
    """validation results, compared as sets, do not depend on iteration / registration order"""
    import c11
    dirs = ["derive_for pallet_a::pallet::Call => Da", "derive_for pallet_b::pallet::Call => Db", "attrtok_rec pallet_c::pallet::Call => ac", "derive_rec pallet_a::pallet::Call => Dr", "attrtok_for pallet_b::pallet::Call => ab",
            "subst gone::Missing => ::ext::M", "subst other::Missing<T> => ::ext::N<T>"]
    perms = list(itertools.permutations(range(4)))
    def mk(eng): return [dirs[j] for j in perms[eng.choose([(i, True) for i in range(len(perms))])]] + dirs[4:]
    def run(eng, d2):
        res = {"violations": [], "outcome": "Ok"}
        outs = []
        for ho, dd in (("insertion", dirs), (mode, d2)):
            eng.hash_order = ho
            s = Settings(dd).apply(eng)
            r = eng.call("validate_substitutes_and_derives_against_registry", [], [Slot(s.f, 3), Slot(s.f, 2), Slot([to_engine(reg0)], 0)])
            got = c11.read_engine_result(eng, r)
            outs.append(None if got is None else (sorted((p, tuple(v)) for p, v in got[0]), sorted((p, tuple(v)) for p, v in got[1]), sorted(got[2])))
        eng.hash_order = "insertion"
        case = {"op": "validate", "reg": regdsl.encode(reg0).hex(), "set": Settings(d2).replay()}
        if outs[0] != outs[1]:
            res["violations"].append({"what": "validation result (as sets) differs between two iteration/registration orders: %s vs %s" % (outs[0], outs[1]), "case": case, "case1": {"op": "validate", "reg": regdsl.encode(reg0).hex(), "set": Settings(dirs).replay()}, "kind": "nondeterminism-validation"})
        return res
    return Family("validation-sets-%s" % mode, mk, run, target_prefixes=48 if mode == "fork" else 4)

def families(eng, tier, seed):
    C = corpus(); fams = [validation_family(C["enum"], "fork"), validation_family(C["enum"], "reversed")]
    reach = C["reach"]
    b1 = next(i for i, t in enumerate(reach) if t["path"][-1:] == ["B1"]); small, _ = restrict(reach, [b1])
    p = lambda n: "::".join(next(t["path"] for t in small if t["path"][-1:] == [n]))
    tiny = ["derive_all Db", "derive_all Da", "attrtok_all serde(b)", "attrtok_all serde(a)", "derive_rec %s => R1" % p("B1"), "attrtok_for %s => zz" % p("Inner")]
    fams.append(gen_twice("fork-tiny-derives", small, tiny, "fork"))
    fams.append(gen_twice("fork-tiny-3derives", small, ["derive_all Dc", "derive_all Db", "derive_all Da", "derive_for %s => S1" % p("Inner"), "derive_for %s => S0" % p("Inner")], "fork"))
    fams.append(gen_twice("fork-tiny-3attrs", small, ["attrtok_all serde(c)", "attrtok_all serde(b)", "attrtok_all serde(a = \"1\")"], "fork"))
    if tier == "thorough":
        top = next(i for i, t in enumerate(reach) if t["path"][-1:] == ["Choice"]); mid, _ = restrict(reach, [top])
        q = lambda n: "::".join(next(t["path"] for t in mid if t["path"][-1:] == [n]))
        fams.append(gen_twice("fork-mid-derives", mid, ["derive_all Da", "derive_rec %s => R1" % q("B1"), "attrtok_for %s => zz" % q("A1"), "attrtok_for %s => aa" % q("A1")], "fork"))
    # dedup numbering under arbitrary order of the path-group map
    vs = strip_segment(C["versions"], ("v1", "v2"))
    fams.append(gen_twice("fork-dedup-versions", vs, ["derive_all D"], "fork", dedup=True))
    fams.append(gen_twice("fork-dedup-assoc", C["assoc_skip"], [], "fork", dedup=True))
    # every corpus registry, rich settings, reversed order of every hash container
    for n, r in C.items():
        multi = len({tuple(t["path"]) for t in r if t["path"]}) < sum(1 for t in r if t["path"])
        ips = c08.item_paths(r)
        dirs = list(RICH)
        if ips: dirs += ["derive_rec %s => Rr" % "::".join(ips[0]), "attrtok_rec %s => rr(1)" % "::".join(ips[0]), "derive_for %s => Ss" % "::".join(ips[-1]), "derive_for %s => Sa" % "::".join(ips[-1])]
        fams.append(gen_twice("reversed-%s" % n, r, dirs, "reversed", dedup=multi))
        if n == "versions": fams.append(gen_twice("reversed-versions-stripped", vs, dirs, "reversed", dedup=True))
        if n in ("versions_hdr", "versions_hdr_mirror"): fams.append(gen_twice("reversed-%s-stripped" % n, strip_segment(r, ("h1", "h2")), dirs, "reversed", dedup=True))
    # registration order: all permutations of commuting directives
    k = 4 if tier == "quick" else 5
    dirs = ["derive_all Db", "derive_all Da", "attrtok_all serde(b)", "derive_rec %s => R1" % p("B1"), "attrtok_for %s => zz" % p("Inner")][:k]
    fams.append(gen_twice("registration-order", small, dirs, "insertion", perms=list(itertools.permutations(range(len(dirs))))))
    enum_r = C["enum"]; eps = c08.item_paths(enum_r)
    dirs2 = ["derive_for %s => X" % "::".join(eps[0]), "derive_for %s => Y" % "::".join(eps[0]), "derive_rec %s => Z" % "::".join(eps[-1]), "subst %s => ::ext::Tup" % "::".join(next(t["path"] for t in enum_r if t["path"][-1:] == ["Tup"])), "attrtok_rec %s => q" % "::".join(eps[0])][:k]
    fams.append(gen_twice("registration-order-subst", enum_r, dirs2, "reversed", perms=list(itertools.permutations(range(len(dirs2))))))
    return fams

def confirm(v, real):
    if "panic" in real: return True
    if v["kind"] == "sorted": return real.get("result") == "Ok" and bool(sorted_problems(tokenize(real["tokens"])))
    if v["kind"] == "nondeterminism-validation":
        outs = set()
        for r in run_replay([v["case1"], v["case"]] * 12):
            def L(k):
                x = r.get(k, []); return tuple(sorted(x if isinstance(x, list) else [x]))
            outs.add((r.get("result"), L("derives"), L("attrs"), L("substs")))
        return len(outs) > 1
    if v["kind"] == "nondeterminism":
        # the real build runs with random hash seeds: repeat both cases a number of times and look for any difference
        outs = set()
        rs = run_replay([v["case1"], v["case"]] * 12)
        for r in rs: outs.add((r.get("result"), r.get("tokens"), r.get("paths"), r.get("err_variant"), r.get("err_payload")))
        return len(outs) > 1
    return False
def classify(v): return v["kind"] + ":" + v.get("family", "")
if __name__ == "__main__":
    main(sys.modules[__name__])
