//! Replay tool: runs the REAL scale-typegen / scale-typegen-description code (path dependencies on /repo) on
//! case files written by the Python harnesses and prints the observable results.
//! Protocol (stdin): `case <n>` / `<key> <hex of utf8 value>`* / `end`; stdout mirrors it.
mod corpus;
use parity_scale_codec::Decode;
use quote::ToTokens;
use scale_info::PortableRegistry;
use scale_typegen::typegen::ir::ToTokensWithSettings;
use scale_typegen::typegen::settings::AllocCratePath;
use scale_typegen::{TypeGenerator, TypeGeneratorSettings, TypegenError};
use std::collections::HashMap;
use std::io::{BufRead, Write};
use std::panic::{catch_unwind, AssertUnwindSafe};

type Case = Vec<(String, String)>;
struct Out(Vec<(String, String)>);
impl Out {
    fn put(&mut self, k: &str, v: impl Into<String>) {
        self.0.push((k.to_string(), v.into()));
    }
}

fn unhex(s: &str) -> Vec<u8> {
    (0..s.len() / 2)
        .map(|i| u8::from_str_radix(&s[2 * i..2 * i + 2], 16).unwrap())
        .collect()
}
fn hex(b: &[u8]) -> String {
    b.iter().map(|x| format!("{:02x}", x)).collect()
}
fn get<'a>(c: &'a Case, k: &str) -> Option<&'a str> {
    c.iter().find(|(a, _)| a == k).map(|(_, v)| v.as_str())
}
fn get_all<'a>(c: &'a Case, k: &str) -> Vec<&'a str> {
    c.iter().filter(|(a, _)| a == k).map(|(_, v)| v.as_str()).collect()
}
fn registry(c: &Case) -> PortableRegistry {
    let bytes = unhex(get(c, "reg").expect("reg"));
    PortableRegistry::decode(&mut &bytes[..]).expect("registry decodes")
}

fn err_parts(e: &TypegenError) -> (String, String) {
    match e {
        TypegenError::SynParseError(e) => ("SynParseError".into(), e.to_string()),
        TypegenError::InvalidFields(s) => ("InvalidFields".into(), s.clone()),
        TypegenError::InvalidType(s) => ("InvalidType".into(), s.clone()),
        TypegenError::CompactPathNone => ("CompactPathNone".into(), String::new()),
        TypegenError::DecodedBitsPathNone => ("DecodedBitsPathNone".into(), String::new()),
        TypegenError::TypeNotFound(i) => ("TypeNotFound".into(), i.to_string()),
        TypegenError::InvalidSubstitute(e) => ("InvalidSubstitute".into(), format!("{:?}", e.kind)),
        TypegenError::SettingsValidation(e) => ("SettingsValidation".into(), format!("{:?}", e)),
        TypegenError::DuplicateTypePath(s) => ("DuplicateTypePath".into(), s.clone()),
        TypegenError::RegistryTypeIdsInvalid { given_ty_id, expected_ty_id, .. } => (
            "RegistryTypeIdsInvalid".into(),
            format!("{} {}", given_ty_id, expected_ty_id),
        ),
        _ => ("Other".into(), e.to_string()),
    }
}

/// settings directives, applied in order
fn settings(c: &Case, out: &mut Out) -> Option<TypeGeneratorSettings> {
    let mut s = TypeGeneratorSettings::new();
    for d in get_all(c, "set") {
        let (k, rest) = d.split_once(' ').unwrap_or((d, ""));
        let p = |x: &str| -> syn::Path { syn::parse_str(x).expect("path") };
        match k {
            "mod_name" => s = s.type_mod_name(rest),
            "compact_path" => s = s.compact_type_path(p(rest)),
            "bits_path" => s = s.decoded_bits_type_path(p(rest)),
            "compact_as_path" => s = s.compact_as_type_path(p(rest)),
            "docs" => s = s.should_gen_docs(rest == "1"),
            "codec_attrs" => s = s.insert_codec_attributes(),
            "alloc" => s.alloc_crate_path = AllocCratePath::Custom(p(rest)),
            "derive_all" => s = s.add_derives_for_all([p(rest)]),
            "subst_if_absent" | "subst_extend" => {
                let (a, b) = rest.split_once(" => ").expect("subst a => b");
                let to = scale_typegen::typegen::settings::substitutes::absolute_path(p(b)).expect("absolute");
                if k == "subst_if_absent" {
                    s.substitutes.insert_if_not_exists(p(a), to).expect("insert_if_not_exists");
                } else {
                    s.substitutes.extend([(p(a), to)]).expect("extend");
                }
            }
            "subst" => {
                let (a, b) = rest.split_once(" => ").expect("subst a => b");
                match scale_typegen::typegen::settings::substitutes::absolute_path(p(b)) {
                    Ok(to) => {
                        if let Err(e) = s.substitutes.insert(p(a), to) {
                            out.put("settings_err", format!("{:?}", e.kind));
                            return None;
                        }
                    }
                    Err(e) => {
                        out.put("settings_err", format!("{:?}", e.kind));
                        return None;
                    }
                }
            }
            "derive_for" | "derive_rec" => {
                let (a, b) = rest.split_once(" => ").expect("derive_for path => derive");
                let tp: syn::TypePath = syn::parse_str(a).expect("type path");
                s.derives.add_derives_for(tp, [p(b)], k == "derive_rec");
            }
            "attrtok_all" => {
                let ts: proc_macro2::TokenStream = rest.parse().unwrap();
                let a: syn::Attribute = syn::parse_quote!(#[#ts]);
                s.derives.add_attributes_for_all([a]);
            }
            "attrtok_for" | "attrtok_rec" => {
                let (a, b) = rest.split_once(" => ").expect("attr_for path => tokens");
                let tp: syn::TypePath = syn::parse_str(a).expect("type path");
                let ts: proc_macro2::TokenStream = b.parse().unwrap();
                let at: syn::Attribute = syn::parse_quote!(#[#ts]);
                s.derives.add_attributes_for(tp, [at], k == "attrtok_rec");
            }
            _ => panic!("unknown settings directive {k}"),
        }
    }
    Some(s)
}

fn op_fmt(c: &Case, out: &mut Out) {
    let text = get(c, "text").unwrap_or("");
    out.put("out", scale_typegen_description::format_type_description(text));
}

fn op_describe(c: &Case, out: &mut Out) {
    let reg = registry(c);
    let id: u32 = get(c, "id").unwrap().parse().unwrap();
    let format = get(c, "format") == Some("1");
    match scale_typegen_description::type_description(id, &reg, format) {
        Ok(s) => out.put("ok", s),
        Err(e) => out.put("err", e.to_string()),
    }
}

fn paths_of(reg: &PortableRegistry) -> String {
    reg.types
        .iter()
        .map(|t| t.ty.path.segments.join("::"))
        .collect::<Vec<_>>()
        .join(",")
}

fn op_dedup(c: &Case, out: &mut Out) {
    let mut reg = registry(c);
    let n: usize = get(c, "times").map(|x| x.parse().unwrap()).unwrap_or(1);
    for i in 0..n {
        match scale_typegen::utils::ensure_unique_type_paths(&mut reg) {
            Ok(()) => out.put(&format!("paths{}", i + 1), paths_of(&reg)),
            Err(e) => {
                let (v, p) = err_parts(&e);
                out.put("result", "Err");
                out.put("err_variant", v);
                out.put("err_payload", p);
                return;
            }
        }
    }
    out.put("result", "Ok");
    use parity_scale_codec::Encode;
    out.put("reg_after", hex(&reg.encode()));
}

fn op_gen(c: &Case, out: &mut Out) {
    let mut reg = registry(c);
    let Some(s) = settings(c, out) else { return };
    if get(c, "dedup") == Some("1") {
        if let Err(e) = scale_typegen::utils::ensure_unique_type_paths(&mut reg) {
            let (v, p) = err_parts(&e);
            out.put("result", "Err");
            out.put("err_variant", v);
            out.put("err_payload", p);
            out.put("stage", "dedup");
            return;
        }
        out.put("paths", paths_of(&reg));
    }
    let g = TypeGenerator::new(&reg, &s);
    match g.generate_types_mod() {
        Ok(m) => {
            out.put("result", "Ok");
            out.put("tokens", m.to_token_stream(&s).to_string());
        }
        Err(e) => {
            let (v, p) = err_parts(&e);
            out.put("result", "Err");
            out.put("err_variant", v);
            out.put("err_payload", p);
        }
    }
    for r in get_all(c, "resolve") {
        let id: u32 = r.parse().unwrap();
        match g.resolve_type_path(id) {
            Ok(tp) => out.put(&format!("resolve_{id}"), tp.to_token_stream(&s).to_string()),
            Err(e) => out.put(&format!("resolve_{id}"), format!("Err {}", err_parts(&e).0)),
        }
    }
}

/// standalone struct from the field list of variant `variant` (or of the struct itself when absent) of type `id`
fn op_standalone(c: &Case, out: &mut Out) {
    use scale_typegen::typegen::ir::type_ir::CompositeIR;
    use scale_typegen::typegen::type_params::TypeParameters;
    let reg = registry(c);
    let Some(s) = settings(c, out) else { return };
    let id: u32 = get(c, "id").unwrap().parse().unwrap();
    let g = TypeGenerator::new(&reg, &s);
    let ty = reg.resolve(id).expect("id");
    let (name, fields, docs) = match (&ty.type_def, get(c, "variant")) {
        (scale_info::TypeDef::Variant(v), Some(vi)) => {
            let v = &v.variants[vi.parse::<usize>().unwrap()];
            (v.name.clone(), v.fields.clone(), v.docs.clone())
        }
        (scale_info::TypeDef::Composite(cdef), _) => (
            ty.path.segments.last().cloned().unwrap_or("Anon".into()),
            cdef.fields.clone(),
            ty.docs.clone(),
        ),
        _ => panic!("standalone: not a struct/variant"),
    };
    let mut tp = TypeParameters::from_scale_info(&[]);
    match g.create_composite_ir_kind(&fields, &mut tp) {
        Ok(kind) => {
            let ident: proc_macro2::Ident = syn::parse_str(&name).expect("ident");
            let comp = CompositeIR::new(ident, kind, g.docs_from_scale_info(&docs));
            let ir = g.upcast_composite(&comp);
            out.put("result", "Ok");
            out.put("tokens", ir.to_token_stream(&s).to_string());
        }
        Err(e) => {
            let (v, p) = err_parts(&e);
            out.put("result", "Err");
            out.put("err_variant", v);
            out.put("err_payload", p);
        }
    }
    match g.generate_types_mod() {
        Ok(m) => out.put("module", m.to_token_stream(&s).to_string()),
        Err(e) => out.put("module_err", err_parts(&e).0),
    }
}

fn show<T: quote::ToTokens>(t: &T) -> String {
    t.to_token_stream().to_string().replace(' ', "")
}
/// settings validation against the registry + similar-path queries
fn op_validate(c: &Case, out: &mut Out) {
    let reg = registry(c);
    let Some(s) = settings(c, out) else { return };
    match scale_typegen::typegen::validation::validate_substitutes_and_derives_against_registry(&s.substitutes, &s.derives, &reg) {
        Ok(()) => out.put("result", "Ok"),
        Err(e) => {
            out.put("result", "Err");
            for (p, ds) in &e.derives_for_unknown_types {
                let mut v: Vec<String> = ds.iter().map(show).collect();
                v.sort();
                out.put("derives", format!("{}|{}", show(p), v.join(",")));
            }
            for (p, ds) in &e.attributes_for_unknown_types {
                let mut v: Vec<String> = ds.iter().map(show).collect();
                v.sort();
                out.put("attrs", format!("{}|{}", show(p), v.join(",")));
            }
            for (p, t) in &e.substitutes_for_unknown_types {
                out.put("substs", format!("{}|{}", show(p), show(t)));
            }
        }
    }
    for q in get_all(c, "similar") {
        let p: syn::Path = syn::parse_str(q).expect("path");
        let v: Vec<String> = scale_typegen::typegen::validation::similar_type_paths_in_registry(&reg, &p).iter().map(show).collect();
        out.put(&format!("similar_{}", q.replace(' ', "")), v.join(","));
    }
}

/// a history of public builder calls on DerivesRegistry / TypeSubstitutes; prints per-call results and the final state
fn op_builders(c: &Case, out: &mut Out) {
    use scale_typegen::typegen::settings::substitutes::absolute_path;
    let mut d = scale_typegen::DerivesRegistry::new();
    let mut subs = scale_typegen::TypeSubstitutes::new();
    let p = |x: &str| -> syn::Path { syn::parse_str(x).expect("path") };
    // `Foo(A, B)` style arguments only parse in bound position
    let parse_path = |x: &str| -> Result<syn::Path, syn::Error> {
        if x.contains('(') && !x.contains("<(") { syn::parse_str::<syn::TraitBound>(x).map(|b| b.path) } else { syn::parse_str::<syn::Path>(x) }
    };
    let attr = |x: &str| -> syn::Attribute {
        let ts: proc_macro2::TokenStream = x.parse().unwrap();
        syn::parse_quote!(#[#ts])
    };
    for call in get_all(c, "call") {
        let (k, rest) = call.split_once(' ').unwrap_or((call, ""));
        let pair = |r: &str| -> (String, String) {
            let (a, b) = r.split_once(" => ").expect("a => b");
            (a.to_string(), b.to_string())
        };
        let res: Result<(), String> = match k {
            "derive_all" => { d.add_derives_for_all([p(rest)]); Ok(()) }
            "attr_all" => { d.add_attributes_for_all([attr(rest)]); Ok(()) }
            "derive_for" | "derive_rec" => { let (a, b) = pair(rest); d.add_derives_for(syn::parse_str(&a).unwrap(), [p(&b)], k == "derive_rec"); Ok(()) }
            "attr_for" | "attr_rec" => { let (a, b) = pair(rest); d.add_attributes_for(syn::parse_str(&a).unwrap(), [attr(&b)], k == "attr_rec"); Ok(()) }
            "insert" | "insert_if_absent" => {
                let (a, b) = pair(rest);
                match parse_path(&a) {
                    Err(_) => Err("SourceDoesNotParse".to_string()),
                    Ok(src) => match parse_path(&b) {
                        Err(_) => Err("TargetDoesNotParse".to_string()),
                        Ok(tp) => match absolute_path(tp) {
                            Err(e) => Err(format!("{:?}", e.kind)),
                            Ok(to) => {
                                let r = if k == "insert" { subs.insert(src, to) } else { subs.insert_if_not_exists(src, to) };
                                r.map_err(|e| format!("{:?}", e.kind))
                            }
                        },
                    },
                }
            }
            "extend" => {
                let mut elems = vec![];
                let mut early: Option<String> = None;
                for part in rest.split(" ;; ") {
                    let (a, b) = pair(part);
                    let (Ok(sp), Ok(tp)) = (parse_path(&a), parse_path(&b)) else { early = Some("DoesNotParse".into()); break; };
                    match absolute_path(tp) {
                        Ok(to) => elems.push((sp, to)),
                        Err(e) => { early = Some(format!("{:?}", e.kind)); break; }
                    }
                }
                match early { Some(e) => Err(e), None => subs.extend(elems).map_err(|e| format!("{:?}", e.kind)) }
            }
            _ => panic!("unknown builder call {k}"),
        };
        out.put("res", match res { Ok(()) => "ok".to_string(), Err(e) => format!("err:{e}") });
    }
    let set = |s: &std::collections::HashSet<syn::Path>| { let mut v: Vec<String> = s.iter().map(show).collect(); v.sort(); v.join(",") };
    let aset = |s: &std::collections::HashSet<syn::Attribute>| { let mut v: Vec<String> = s.iter().map(show).collect(); v.sort(); v.join(",") };
    out.put("default", format!("{}|{}", set(d.default_derives().derives()), aset(d.default_derives().attributes())));
    let mut v: Vec<String> = d.derives_on_specific_types().map(|(p, x)| format!("{}|{}|{}", show(p), set(x.derives()), aset(x.attributes()))).collect();
    v.sort();
    out.put("typed", v.join(";"));
    let mut s: Vec<String> = subs.iter().map(|(k, v)| format!("{}=>{}", k.join("::"), show(v.path()))).collect();
    s.sort();
    out.put("subs", s.join(";"));
}

fn canon_value(v: &scale_value::Value<()>, out: &mut String) {
    use scale_value::{Composite, Primitive, ValueDef};
    match &v.value {
        ValueDef::Composite(Composite::Named(items)) => {
            out.push_str("N{");
            for (n, x) in items { out.push_str(n); out.push(':'); canon_value(x, out); out.push(','); }
            out.push('}');
        }
        ValueDef::Composite(Composite::Unnamed(items)) => {
            out.push_str("U(");
            for x in items { canon_value(x, out); out.push(','); }
            out.push(')');
        }
        ValueDef::Variant(var) => {
            out.push_str("V["); out.push_str(&var.name); out.push(' ');
            canon_value(&scale_value::Value { value: ValueDef::Composite(var.values.clone()), context: () }, out);
            out.push(']');
        }
        ValueDef::BitSequence(b) => { out.push_str("B<"); for bit in b.iter() { out.push(if bit { '1' } else { '0' }); } out.push('>'); }
        ValueDef::Primitive(p) => match p {
            Primitive::Bool(b) => out.push_str(&format!("bool:{b}")),
            Primitive::Char(c) => out.push_str(&format!("char:{c}")),
            Primitive::String(s) => out.push_str(&format!("str:{s}")),
            Primitive::U128(x) => out.push_str(&format!("u:{x}")),
            Primitive::I128(x) => out.push_str(&format!("i:{x}")),
            Primitive::U256(x) => out.push_str(&format!("u256:{:?}", x)),
            Primitive::I256(x) => out.push_str(&format!("i256:{:?}", x)),
        },
    }
}
/// example value for (id, seed..seed+n): generation, determinism, encode_as_type, decode_as_type round trip
fn op_scale_example(c: &Case, out: &mut Out) {
    let reg = registry(c);
    let id: u32 = get(c, "id").unwrap().parse().unwrap();
    let seed0: u64 = get(c, "seed").unwrap_or("0").parse().unwrap();
    let n: u64 = get(c, "nseeds").unwrap_or("1").parse().unwrap();
    for seed in seed0..seed0 + n {
        let a = scale_typegen_description::scale_value_from_seed(id, &reg, seed);
        let b = scale_typegen_description::scale_value_from_seed(id, &reg, seed);
        match (a, b) {
            (Ok(v), Ok(w)) => {
                let mut s = String::new(); canon_value(&v, &mut s);
                if n == 1 { out.put("value", s.clone()); }
                if v != w { out.put("fail", format!("seed {seed}: two runs with the same seed differ")); return; }
                let mut bytes = vec![];
                if let Err(e) = scale_value::scale::encode_as_type(&v, id, &reg, &mut bytes) { out.put("fail", format!("seed {seed}: encode_as_type fails: {e} for value {s}")); return; }
                let cursor = &mut &bytes[..];
                match scale_value::scale::decode_as_type(cursor, id, &reg) {
                    Err(e) => { out.put("fail", format!("seed {seed}: decode_as_type fails: {e}")); return; }
                    Ok(d) => {
                        if !cursor.is_empty() { out.put("fail", format!("seed {seed}: {} bytes left after decoding", cursor.len())); return; }
                        let d = d.remove_context();
                        if d != v { let mut s2 = String::new(); canon_value(&d, &mut s2); out.put("fail", format!("seed {seed}: decoded value {s2} differs from {s}")); return; }
                    }
                }
            }
            (Err(e), Err(_)) => { if n == 1 { out.put("value", "ERR"); out.put("err", e.to_string().chars().take(80).collect::<String>()); } else { out.put("errseed", seed.to_string()); } }
            _ => { out.put("fail", format!("seed {seed}: one run returns a value, the other an error")); return; }
        }
    }
    out.put("result", "Ok");
}

/// rust example for (id, seeds): determinism on the real build, and the printed example for a single seed
fn op_rust_example(c: &Case, out: &mut Out) {
    let reg = registry(c);
    let Some(s) = settings(c, out) else { return };
    let id: u32 = get(c, "id").unwrap().parse().unwrap();
    let seed0: u64 = get(c, "seed").unwrap_or("0").parse().unwrap();
    let n: u64 = get(c, "nseeds").unwrap_or("1").parse().unwrap();
    let g = TypeGenerator::new(&reg, &s);
    if let Ok(m) = g.generate_types_mod() { out.put("module", m.to_token_stream(&s).to_string()); }
    for t in reg.types.iter() {
        if let Ok(tp) = g.resolve_type_path(t.id) { out.put(&format!("resolve_{}", t.id), tp.to_token_stream(&s).to_string()); }
    }
    for seed in seed0..seed0 + n {
        let a = scale_typegen_description::rust_value_from_seed(id, &reg, &s, seed, None, None);
        let b = scale_typegen_description::rust_value_from_seed(id, &reg, &s, seed, None, None);
        match (a, b) {
            (Ok(x), Ok(y)) => {
                if x.to_string() != y.to_string() { out.put("fail", format!("seed {seed}: two runs differ")); }
                out.put("example", x.to_string());
            }
            (Err(_), Err(_)) => out.put("example", "ERR"),
            _ => out.put("fail", format!("seed {seed}: one run errs")),
        }
    }
}

fn run_case(c: &Case, out: &mut Out) {
    match get(c, "op").unwrap_or("") {
        "fmt" => op_fmt(c, out),
        "describe" => op_describe(c, out),
        "dedup" => op_dedup(c, out),
        "describe_all" => {
            let reg = registry(c);
            for t in reg.types.iter() {
                let _ = scale_typegen_description::type_description(t.id, &reg, false);
                let _ = scale_typegen_description::type_description(t.id, &reg, true);
            }
            out.put("ok", "all");
        }
        "gen" => op_gen(c, out),
        "standalone" => op_standalone(c, out),
        "validate" => op_validate(c, out),
        "builders" => op_builders(c, out),
        "scale_example" => op_scale_example(c, out),
        "rust_example" => op_rust_example(c, out),
        "corpus" => {
            use parity_scale_codec::Encode;
            for (name, reg) in corpus::all() {
                out.put(&format!("reg_{name}"), hex(&reg.encode()));
            }
        }
        "polkadot" => {
            // reachability-closed sub-registry of the real chain metadata artifact for the given root ids
            let bytes = std::fs::read("/repo/artifacts/polkadot_metadata.scale").expect("artifact");
            let reg = PortableRegistry::decode(&mut &bytes[5..]).expect("registry at offset 5");
            use parity_scale_codec::Encode;
            out.put("reg", hex(&reg.encode()));
        }
        other => out.put("error", format!("unknown op {other}")),
    }
}

fn main() {
    std::panic::set_hook(Box::new(|_| {}));
    let stdin = std::io::stdin();
    let stdout = std::io::stdout();
    let mut w = std::io::BufWriter::new(stdout.lock());
    let mut cur: Option<Case> = None;
    let mut n = String::new();
    for line in stdin.lock().lines() {
        let line = line.unwrap();
        if let Some(rest) = line.strip_prefix("case ") {
            cur = Some(vec![]);
            n = rest.to_string();
        } else if line == "end" {
            let c = cur.take().unwrap();
            let mut out = Out(vec![]);
            let r = catch_unwind(AssertUnwindSafe(|| {
                let mut o = Out(vec![]);
                run_case(&c, &mut o);
                o
            }));
            match r {
                Ok(o) => out = o,
                Err(p) => {
                    let msg = p
                        .downcast_ref::<String>()
                        .cloned()
                        .or_else(|| p.downcast_ref::<&str>().map(|s| s.to_string()))
                        .unwrap_or_else(|| "panic".into());
                    out.put("panic", msg);
                }
            }
            writeln!(w, "case {n}").unwrap();
            for (k, v) in out.0 {
                writeln!(w, "{} {}", k, hex(v.as_bytes())).unwrap();
            }
            writeln!(w, "end").unwrap();
        } else if let Some(c) = cur.as_mut() {
            if let Some((k, v)) = line.split_once(' ') {
                c.push((k.to_string(), String::from_utf8(unhex(v)).unwrap()));
            } else if !line.is_empty() {
                c.push((line.clone(), String::new()));
            }
        }
    }
    let _ = HashMap::<u8, u8>::new();
    let _ = |t: proc_macro2::TokenStream| t.to_token_stream();
}
