"""Structural conformance of a scale_value::Value (engine representation) to a registry type - the harness's model of
what scale-encode's encode_as_type accepts. Candidates found with it are confirmed on the real encoder/decoder."""
import z3
UINT = {"U8": 8, "U16": 16, "U32": 32, "U64": 64, "U128": 128}
SINT = {"I8": 8, "I16": 16, "I32": 32, "I64": 64, "I128": 128}

def conforms(deref, v, reg, i, conds, path="value"):
    """returns list of problems; appends (description, z3 condition that must hold) to conds"""
    v = deref(v); vd = v.f[0]; t = reg[i]; d = t["def"]; k = d[0]
    def comp_items(c):
        c = deref(c)
        return c.name, [deref(x) for x in deref(c.f[0]).items]
    if k == "compact": return conforms(deref, v, reg, d[1], conds, path)
    if k in ("composite", "tuple"):
        fields = d[1] if k == "composite" else [{"name": None, "ty": x} for x in d[1]]
        if vd.name != "Composite": return ["%s: %s for a %s type" % (path, vd.name, k)]
        kind, items = comp_items(vd.f[0])
        if len(items) != len(fields): return ["%s: %d values for %d fields" % (path, len(items), len(fields))]
        named = bool(fields) and fields[0]["name"] is not None
        probs = []
        if fields and (kind == "Named") != named: probs.append("%s: %s composite for %s fields" % (path, kind, "named" if named else "unnamed"))
        for it, f in zip(items, fields):
            if kind == "Named":
                nm = deref(it.f[0]).concrete()
                if nm != f["name"]: probs.append("%s: field name %r, type has %r" % (path, nm, f["name"]))
                probs += conforms(deref, it.f[1], reg, f["ty"], conds, path + "." + str(f["name"]))
            else: probs += conforms(deref, it, reg, f["ty"], conds, path + "." + str(f["name"] or "_"))
        return probs
    if k == "variant":
        if vd.name != "Variant": return ["%s: %s for an enum type" % (path, vd.name)]
        var = deref(vd.f[0]); nm = deref(var.f[0]).concrete()
        cand = [x for x in d[1] if x["name"] == nm]
        if not cand: return ["%s: variant %r does not exist" % (path, nm)]
        kind, items = comp_items(var.f[1]); fields = cand[0]["fields"]
        if len(items) != len(fields): return ["%s::%s: %d values for %d fields" % (path, nm, len(items), len(fields))]
        probs = []
        named = bool(fields) and fields[0]["name"] is not None
        if fields and (kind == "Named") != named: probs.append("%s::%s: %s composite for %s fields" % (path, nm, kind, "named" if named else "unnamed"))
        for it, f in zip(items, fields):
            if kind == "Named":
                fn = deref(it.f[0]).concrete()
                if fn != f["name"]: probs.append("%s::%s: field name %r, type has %r" % (path, nm, fn, f["name"]))
                probs += conforms(deref, it.f[1], reg, f["ty"], conds, path + "::" + nm)
            else: probs += conforms(deref, it, reg, f["ty"], conds, path + "::" + nm)
        return probs
    if k in ("sequence", "array"):
        if vd.name != "Composite": return ["%s: %s for a %s" % (path, vd.name, k)]
        kind, items = comp_items(vd.f[0])
        if kind != "Unnamed" and items: return ["%s: named composite for a %s" % (path, k)]
        if k == "array" and len(items) != d[1]: return ["%s: %d elements for an array of length %s" % (path, len(items), d[1])]
        probs = []
        for n, it in enumerate(items): probs += conforms(deref, it, reg, d[1] if k == "sequence" else d[2], conds, "%s[%d]" % (path, n))
        return probs
    if k == "bitseq":
        return [] if vd.name == "BitSequence" else ["%s: %s for a bit sequence" % (path, vd.name)]
    if k == "primitive":
        if vd.name != "Primitive": return ["%s: %s for primitive %s" % (path, vd.name, d[1])]
        p = deref(vd.f[0]); x = p.f[0] if p.f else None
        want = {"Bool": "Bool", "Char": "Char", "Str": "String", "U256": "U256", "I256": "I256"}.get(d[1]) or ("U128" if d[1] in UINT else "I128")
        if p.name != want: return ["%s: Primitive::%s for primitive type %s" % (path, p.name, d[1])]
        if d[1] in UINT and UINT[d[1]] < 128:
            xv = x.v
            if isinstance(xv, int):
                if xv >= 1 << UINT[d[1]]: return ["%s: %d does not fit %s" % (path, xv, d[1])]
            else: conds.append(("%s fits %s" % (path, d[1]), z3.ULT(xv, z3.BitVecVal(1 << UINT[d[1]], 128))))
        if d[1] in SINT and SINT[d[1]] < 128:
            xv = x.v; w = SINT[d[1]]
            if isinstance(xv, int):
                sv = xv - (1 << 128) if xv >> 127 else xv
                if not -(1 << (w - 1)) <= sv < (1 << (w - 1)): return ["%s: %d does not fit %s" % (path, sv, d[1])]
            else: conds.append(("%s fits %s" % (path, d[1]), z3.And(xv >= z3.BitVecVal(-(1 << (w - 1)) & ((1 << 128) - 1), 128), xv <= z3.BitVecVal((1 << (w - 1)) - 1, 128))))
        if d[1] == "Char" and not isinstance(x.v, int):
            conds.append(("%s is a scalar value" % path, z3.And(z3.ULE(x.v, 0x10FFFF), z3.Or(z3.ULT(x.v, 0xD800), z3.UGT(x.v, 0xDFFF)))))
        return []
    return ["%s: unknown type def" % path]

def cyclic_or_empty(reg, root):
    """True if the types reachable from root (fields, elements, compact) contain a cycle or an empty enum"""
    color = {}; bad = [False]
    def refs(t):
        d = t["def"]; k = d[0]
        if k == "composite": return [f["ty"] for f in d[1]]
        if k == "variant": return [f["ty"] for v in d[1] for f in v["fields"]]
        if k in ("sequence", "compact"): return [d[1]]
        if k == "array": return [d[2]]
        if k == "tuple": return list(d[1])
        return []
    def dfs(i):
        color[i] = 1
        t = reg[i]
        if t["def"][0] == "variant" and not t["def"][1]: bad[0] = True
        for j in refs(t):
            if color.get(j) == 1: bad[0] = True
            elif j not in color: dfs(j)
        color[i] = 2
    dfs(root)
    return bad[0]
