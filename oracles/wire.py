"""Wire-shape oracle: the SCALE shape of a registry type id vs. the shape of the Rust type the generator names for
it, read from the emitted module (tokens.py). Shapes are regular trees unfolded to a stated depth; leaves that are
symbolic (variant indices, array lengths) are compared as z3 terms, so `eq` returns True/False or a z3 formula."""
import re, z3
from .tokens import *

PRIM_PATH = {"bool": "Bool", "char": "Char", "u8": "U8", "u16": "U16", "u32": "U32", "u64": "U64", "u128": "U128",
             "i8": "I8", "i16": "I16", "i32": "I32", "i64": "I64", "i128": "I128"}
NONZERO = {"NonZero" + k: v for k, v in [("U8", "U8"), ("U16", "U16"), ("U32", "U32"), ("U64", "U64"), ("U128", "U128"),
                                          ("I8", "I8"), ("I16", "I16"), ("I32", "I32"), ("I64", "I64"), ("I128", "I128")]}

class ShapeError(Exception): pass

def z_and(xs):
    xs = [x for x in xs if x is not True]
    if any(x is False for x in xs): return False
    return True if not xs else (xs[0] if len(xs) == 1 else z3.And(*xs))

def leaf(v):
    """normalise a numeric leaf: int or 64-bit z3 term"""
    if isinstance(v, bool): return int(v)
    if isinstance(v, int): return v
    if isinstance(v, str):
        m = re.match(r"^(\d+)(usize|u8|u16|u32|u64|u128)?$", v)
        if not m: raise ShapeError("numeric literal expected, found %r" % v)
        return int(m.group(1))
    if isinstance(v, tuple) and v[0] == "lit": return leaf(v[1])
    if hasattr(v, "v") and hasattr(v, "ty"): return leaf(v.v)      # engine Sc
    if isinstance(v, z3.ExprRef):
        return z3.ZeroExt(64 - v.size(), v) if v.size() < 64 else v
    raise ShapeError("leaf %r" % (v,))
def leaf_eq(x, y):
    x, y = leaf(x), leaf(y)
    if isinstance(x, int) and isinstance(y, int): return x == y
    if isinstance(x, int): x = z3.BitVecVal(x, 64)
    if isinstance(y, int): y = z3.BitVecVal(y, 64)
    return x == y

class RegShapes:
    """shapes on the registry side; reg = DSL registry (concrete structure; index/len leaves may be symbolic)"""
    def __init__(self, reg): self.reg = reg
    def ty(self, i):
        if not isinstance(i, int): raise ShapeError("symbolic id reached the oracle")
        if i >= len(self.reg): raise ShapeError("id %d not in registry" % i)
        return self.reg[i]
    def shape(self, i, depth):
        if depth <= 0: return ("cut",)
        t = self.ty(i); d = t["def"]; k = d[0]; path = t["path"]
        if k == "primitive": return ("prim", d[1])
        if k == "sequence": return ("seq", self.shape(d[1], depth - 1))
        if k == "array": return ("array", d[1], self.shape(d[2], depth - 1))
        if k == "tuple": return ("tuple", [self.shape(x, depth - 1) for x in d[1]])
        if k == "compact": return ("compact", self.shape(d[1], depth - 1))
        if k == "bitseq":
            o = self.ty(d[2])
            return ("bitseq", self.shape(d[1], depth - 1), o["path"][-1] if o["path"] else "?")
        if k == "composite":
            if path == ["PhantomData"]: return ("phantom",)
            if path == ["Cow"]:
                inner = t["params"][0][1]
                return self.shape(inner, depth)
            return ("struct", nophantom([(f["name"], self.shape(f["ty"], depth - 1)) for f in d[1]]))
        if k == "variant":
            return ("enum", [(v["name"], v["index"], nophantom([(f["name"], self.shape(f["ty"], depth - 1)) for f in v["fields"]])) for v in d[1]])
        raise ShapeError(k)

class TokShapes:
    """shapes on the generated-code side"""
    def __init__(self, root_name, module, compact_path=None, bits_path=None, alloc_root=("std",)):
        self.root = root_name; self.mod = module
        self.compact_path = compact_path.replace(" ", "").lstrip(":") if compact_path else None
        self.bits_path = bits_path.replace(" ", "").lstrip(":") if bits_path else None
        self.alloc = "::".join(alloc_root)
    def lookup(self, segs):
        if segs[0] != self.root: raise ShapeError("path %s is not rooted at the types module" % "::".join(segs))
        m = self.mod
        for s in segs[1:-1]:
            if s not in m["mods"]: raise ShapeError("module %s of path %s not emitted" % (s, "::".join(segs)))
            m = m["mods"][s]
        if segs[-1] not in m["items"]: raise ShapeError("item %s not emitted" % "::".join(segs))
        return m["items"][segs[-1]]
    def shape(self, ty, env, depth):
        if depth <= 0: return ("cut",)
        if ty[0] == "paren": return self.shape(ty[1], env, depth)
        if ty[0] == "tuple": return ("tuple", [self.shape(t, env, depth - 1) for t in ty[1]])
        if ty[0] == "array": return ("array", ty[2], self.shape(ty[1], env, depth - 1))
        if ty[0] != "path": raise ShapeError("unsupported type form %r" % (ty[0],))
        _, lead, segs, args = ty
        if not lead and len(segs) == 1 and segs[0] in env:
            if args: raise ShapeError("generic parameter applied to arguments")
            a_ty, a_env = env[segs[0]]
            return self.shape(a_ty, a_env, depth)
        p = "::".join(segs)
        a = self.alloc
        def arg(i, dd):
            if i >= len(args): raise ShapeError("missing generic argument %d of %s" % (i, p))
            return self.shape(args[i], env, dd)
        def arity(n):
            if len(args) != n: raise ShapeError("%s applied to %d arguments, expected %d" % (p, len(args), n))
        if lead or segs[0] != self.root:
            if self.compact_path and p == self.compact_path: arity(1); return ("compact", arg(0, depth - 1))
            if self.bits_path and p == self.bits_path:
                arity(2)
                return ("bitseq", arg(0, depth - 1), self.order_name(args[1], env))
        if lead:
            if p.startswith("core::primitive::") and segs[-1] in PRIM_PATH: arity(0); return ("prim", PRIM_PATH[segs[-1]])
            if p == a + "::string::String": arity(0); return ("prim", "Str")
            if p == a + "::vec::Vec": arity(1); return ("seq", arg(0, depth - 1))
            if p == a + "::boxed::Box": arity(1); return arg(0, depth)
            if p == "core::option::Option":
                arity(1); return ("enum", [("None", 0, []), ("Some", 1, nophantom([(None, arg(0, depth - 1))]))])
            if p == "core::result::Result":
                arity(2); return ("enum", [("Ok", 0, nophantom([(None, arg(0, depth - 1))])), ("Err", 1, nophantom([(None, arg(1, depth - 1))]))])
            if p == a + "::collections::BTreeMap":
                arity(2); return ("struct", [(None, ("seq", ("tuple", [arg(0, depth - 3), arg(1, depth - 3)]) if depth > 2 else ("cut",)) if depth > 1 else ("cut",))])
            if p in (a + "::collections::BTreeSet", a + "::collections::BinaryHeap"):
                arity(1); return ("struct", [(None, ("seq", arg(0, depth - 2)) if depth > 1 else ("cut",))])
            if p in (a + "::collections::VecDeque", a + "::collections::LinkedList"):
                arity(1); return ("seq", arg(0, depth - 1))
            if p in ("core::ops::Range", "core::ops::RangeInclusive"):
                arity(1); return ("struct", [("start", arg(0, depth - 1)), ("end", arg(0, depth - 1))])
            if p.startswith("core::num::") and segs[-1] in NONZERO: arity(0); return ("struct", [(None, ("prim", NONZERO[segs[-1]]))])
            if p == "core::marker::PhantomData": return ("phantom",)
            if p == "core::time::Duration": return ("struct", [(None, ("prim", "U64")), (None, ("prim", "U32"))])
            raise ShapeError("unknown absolute path ::%s" % p)
        item = self.lookup(segs)
        if len(args) != len(item["params"]): raise ShapeError("%s applied to %d arguments but declares %d parameters" % (p, len(args), len(item["params"])))
        env2 = {pn: (a_, env) for pn, a_ in zip(item["params"], args)}
        if item["kind"] == "struct":
            return ("struct", nophantom([self.field(f, env2, depth) for f in item["fields"] if not is_marker(f)]))
        out = []
        for v in item["variants"]:
            if v["name"] == "__Ignore": continue
            idx = codec_attr(v["attrs"], "index")
            if idx is None: raise ShapeError("variant %s::%s has no codec index" % (p, v["name"]))
            if len(idx) != 3 or idx[2][0] != "l": raise ShapeError("malformed codec index")
            out.append((v["name"], idx[2][1], nophantom([self.field(f, env2, depth) for f in v["fields"]])))
        return ("enum", out)
    def order_name(self, ty, env):
        """last path segment of the bit-order type, chasing generic parameters"""
        for _ in range(64):
            if ty[0] != "path": return "?"
            if not ty[1] and len(ty[2]) == 1 and ty[2][0] in env: ty, env = env[ty[2][0]]; continue
            return ty[2][-1]
        return "?"
    def field(self, f, env, depth):
        s = self.shape(f["ty"], env, depth - 1)
        if codec_attr(f["attrs"], "compact") is not None: s = ("compact", s)
        return (f["name"], s)

def nophantom(fields):
    """PhantomData occupies no bytes and scale-info omits such fields: they do not count as fields of the shape"""
    return [f for f in fields if f[1] != ("phantom",)]
def is_marker(f):
    ty = f["ty"]
    return ty[0] == "path" and ty[1] and ty[2] == ["core", "marker", "PhantomData"] and (f["name"] in (None, "__ignore"))

def shape_eq(a, b):
    """python bool or z3 formula; ('cut',) equals anything"""
    if a[0] == "cut" or b[0] == "cut": return True
    if a[0] != b[0]: return False
    k = a[0]
    if k == "phantom": return True
    if k == "prim": return a[1] == b[1]
    if k in ("seq", "compact"): return shape_eq(a[1], b[1])
    if k == "bitseq": return a[2] == b[2] and shape_eq(a[1], b[1])
    if k == "array": return z_and([leaf_eq(a[1], b[1]), shape_eq(a[2], b[2])])
    if k == "tuple": return len(a[1]) == len(b[1]) and z_and([shape_eq(x, y) for x, y in zip(a[1], b[1])])
    if k == "struct": return len(a[1]) == len(b[1]) and z_and([x[0] == y[0] and shape_eq(x[1], y[1]) for x, y in zip(a[1], b[1])])
    if k == "enum":
        if len(a[1]) != len(b[1]): return False
        return z_and([x[0] == y[0] and len(x[2]) == len(y[2]) and z_and([leaf_eq(x[1], y[1])] + [p[0] == q[0] and shape_eq(p[1], q[1]) for p, q in zip(x[2], y[2])]) for x, y in zip(a[1], b[1])])
    raise ShapeError(k)

def shape_diff(a, b, path=""):
    """first structural difference (for messages), ignoring symbolic leaves"""
    if a[0] == "cut" or b[0] == "cut": return None
    if a[0] != b[0]: return "%s: %s vs %s" % (path, a[0], b[0])
    k = a[0]
    if k == "prim": return None if a[1] == b[1] else "%s: %s vs %s" % (path, a[1], b[1])
    if k in ("seq", "compact"): return shape_diff(a[1], b[1], path + "/" + k)
    if k == "bitseq": return ("%s: bit order %s vs %s" % (path, a[2], b[2])) if a[2] != b[2] else shape_diff(a[1], b[1], path + "/store")
    if k == "array":
        try:
            if leaf_eq(a[1], b[1]) is False: return "%s: array length %s vs %s" % (path, a[1], b[1])
        except ShapeError as e: return str(e)
        return shape_diff(a[2], b[2], path + "/[]")
    if k == "tuple":
        if len(a[1]) != len(b[1]): return "%s: tuple arity %d vs %d" % (path, len(a[1]), len(b[1]))
        for i, (x, y) in enumerate(zip(a[1], b[1])):
            d = shape_diff(x, y, "%s.%d" % (path, i))
            if d: return d
        return None
    if k == "struct":
        if len(a[1]) != len(b[1]): return "%s: %d fields vs %d" % (path, len(a[1]), len(b[1]))
        for x, y in zip(a[1], b[1]):
            if x[0] != y[0]: return "%s: field name %s vs %s" % (path, x[0], y[0])
            d = shape_diff(x[1], y[1], "%s.%s" % (path, x[0]))
            if d: return d
        return None
    if k == "enum":
        if len(a[1]) != len(b[1]): return "%s: %d variants vs %d" % (path, len(a[1]), len(b[1]))
        for x, y in zip(a[1], b[1]):
            if x[0] != y[0]: return "%s: variant name %s vs %s" % (path, x[0], y[0])
            try:
                if leaf_eq(x[1], y[1]) is False: return "%s::%s: index %s vs %s" % (path, x[0], x[1], y[1])
            except ShapeError as e: return str(e)
            if len(x[2]) != len(y[2]): return "%s::%s: %d fields vs %d" % (path, x[0], len(x[2]), len(y[2]))
            for p, q in zip(x[2], y[2]):
                if p[0] != q[0]: return "%s::%s: field name %s vs %s" % (path, x[0], p[0], q[0])
                d = shape_diff(p[1], q[1], "%s::%s.%s" % (path, x[0], p[0]))
                if d: return d
        return None
    return None
