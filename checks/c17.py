"""C17: output depends only on the type graph: renumbering, order, restriction."""
import os, sys, itertools
sys.path.insert(0, os.path.dirname(os.path.abspath(__file__)))
from gen_common import *
import c01

ID = "C17"
CRATES = ("typegen", "description")
FUNCTIONS = c01.FUNCTIONS + ["utils::ensure_unique_type_paths"]
MODELS = c01.MODELS
ASSUMPTIONS = ["well-formed, coincidence-free corpus registries; array lengths and variant indices symbolic and shared between the two executions of a path",
               "permutations are applied by the harness with consistent renumbering; restrictions are the reachability closures of each item id",
               "descriptions / example validity of retained ids are checked in C13/C12 style by the description part of this check (concrete mode)"]
BOUNDS = {"quick": {"permutations per registry": "reversal, all adjacent transpositions, 3 seeded random", "restrictions": "closure of every item id (registries <= 20 entries)"},
          "thorough": {"permutations per registry": "all for N <= 5, else reversal, adjacent transpositions, rotations, 12 seeded random", "restrictions": "closure of every item id"}}
OUTSIDE = ["permutations not listed for registries with more than 5 entries"]
GLOBAL_WITNESSES = ("Ok",)
SKIP = {"boxed_param", "empty_enum"}
ST = STD + Settings(["derive_all Debug", "compact_as_path ::parity_scale_codec::CompactAs"])

def canon(toks):
    out = []
    for t in toks:
        if t[0] == "g": out.append("%s{%s}" % (t[1][0], canon(t[2].t)))
        elif t[0] in ("l", "i") and not isinstance(t[1], str):
            x = t[1]; out.append("<%s%s>" % (x[1].v.sexpr() if hasattr(x[1], "v") and hasattr(x[1].v, "sexpr") else x[1], x[2] if len(x) > 2 else ""))
        else: out.append(str(t[1]))
    return " ".join(out)
def item_strings(toks):
    name, module = parse_root(toks)
    return {p: (it, ) for p, it in walk_items(module)}
def split_items(toks):
    """path -> canonical token string of the item (attributes included), by re-reading the raw tokens of each module"""
    res = {}
    def walk(ts, prefix):
        i = 0; cur = []
        while i < len(ts):
            t = ts[i]; cur.append(t)
            if t[0] == "i" and t[1] == "mod" and i + 2 < len(ts) and ts[i+2][0] == "g":
                walk(ts[i+2][2].t, prefix + (ts[i+1][1],)); i += 3; cur = []; continue
            if t[0] == "p" and t[1] == ";" :
                name = item_name(cur)
                if name: res[prefix + (name,)] = canon(cur)
                cur = []
            elif t[0] == "g" and t[1] == "Brace" and item_name(cur):
                res[prefix + (item_name(cur),)] = canon(cur); cur = []
            i += 1
    def item_name(cur):
        for k, t in enumerate(cur):
            if t[0] == "i" and t[1] in ("struct", "enum") and k + 1 < len(cur): return cur[k+1][1]
        return None
    walk(toks, ())
    return res

def perms_for(n, tier, rnd):
    ident = list(range(n)); ps = []
    if n <= 1: return ps
    if tier == "thorough" and n <= 5: return [list(p) for p in itertools.permutations(range(n)) if list(p) != ident]
    ps.append(list(reversed(ident)))
    for i in range(n - 1):
        p = list(ident); p[i], p[i+1] = p[i+1], p[i]; ps.append(p)
    for k in range(3 if tier == "quick" else 12):
        p = list(ident); rnd.shuffle(p); ps.append(p)
    if tier == "thorough":
        for k in (1, n // 2): ps.append(ident[k:] + ident[:k])
    out = []
    for p in ps:
        if p != ident and p not in out: out.append(p)
    return out

def perm_family(name, reg0, perms, dedup, ST=ST, mkreg=None):
    def mk(eng):
        k = eng.choose([(i, True) for i in range(len(perms))])
        return (mkreg(eng) if mkreg else symbolize_leaves(eng, reg0)), perms[k]
    def run(eng, ctx):
        reg, perm = ctx
        res = {"violations": []}
        m = eng.model()
        o1, rv1, _ = generate(eng, regdsl._clone(reg), ST, dedup=dedup)
        reg2 = permute(reg, perm)
        o2, rv2, _ = generate(eng, regdsl._clone(reg2), ST, dedup=dedup)
        c1 = replay_gen_case(concretize(reg, m), ST, dedup=dedup); c2 = replay_gen_case(concretize(reg2, m), ST, dedup=dedup)
        r1 = o1["result"] if o1["result"] == "Ok" else "Err:" + o1["err"][0]; r2 = o2["result"] if o2["result"] == "Ok" else "Err:" + o2["err"][0]
        res["outcome"] = r1
        if r1 != r2: res["violations"].append({"what": "generation gives %s on the registry and %s on its permutation %s" % (r1, r2, perm), "case": c1, "case2": c2, "kind": "perm-outcome"}); return res
        if r1 == "Ok" and not dedup:        # after de-duplication the numbering follows first appearance (C04), so only the groups are compared
            a, b = canon(o1["tokens"]), canon(o2["tokens"])
            if a != b:
                k = next((j for j in range(min(len(a), len(b))) if a[j] != b[j]), 0)
                res["violations"].append({"what": "tokens differ under the permutation %s: ...%s... vs ...%s... | %s" % (perm, a[max(0, k-70):k+70], b[max(0, k-70):k+70], "; ".join(describe(concretize(reg, m), 6))), "case": c1, "case2": c2, "kind": "perm-tokens"})
        if dedup and "paths" in o1 and "paths" in o2:
            g1 = {}; g2 = {}
            for i, p in enumerate(o1["paths"]): g1.setdefault(tuple(p), set()).add(i)
            for k, p in enumerate(o2["paths"]): g2.setdefault(tuple(p), set()).add(perm[k])
            if sorted(map(sorted, g1.values())) != sorted(map(sorted, g2.values())):
                res["violations"].append({"what": "de-duplication groups differ under the permutation %s: %s vs %s" % (perm, sorted(map(sorted, g1.values())), sorted(map(sorted, g2.values()))), "case": c1, "case2": c2, "kind": "perm-groups", "perm": perm})
        if hash(tuple(eng.decisions)) % 3 == 0 and r1 == "Ok":
            res["validate"] = dict(c2, expect={"result": "Ok", "tokens": plain_tok_str(concretize_tokens(o2["tokens"], m))})
            res["sample"] = {"permutation": perm, "registry": describe(concretize(reg, m), 5)}
        return res
    return Family(name, mk, run, target_prefixes=min(32, len(perms)))

def restrict_family(name, reg0, roots, dedup):
    def mk(eng):
        k = eng.choose([(i, True) for i in roots])
        return symbolize_leaves(eng, reg0), k
    def run(eng, ctx):
        reg, root = ctx
        res = {"violations": []}; m = eng.model()
        o1, _, _ = generate(eng, regdsl._clone(reg), ST, dedup=dedup)
        sub, newid = restrict(reg, [root])
        o2, _, _ = generate(eng, regdsl._clone(sub), ST, dedup=dedup)
        c1 = replay_gen_case(concretize(reg, m), ST, dedup=dedup); c2 = replay_gen_case(concretize(sub, m), ST, dedup=dedup)
        r1 = o1["result"] if o1["result"] == "Ok" else "Err:" + o1["err"][0]; r2 = o2["result"] if o2["result"] == "Ok" else "Err:" + o2["err"][0]
        res["outcome"] = r1
        if r1 != "Ok": return res
        if r2 != "Ok":
            res["violations"].append({"what": "generation succeeds on the full registry but gives %s on the closure of id %d" % (r2, root), "case": c1, "case2": c2, "kind": "restrict-outcome"}); return res
        full = split_items(o1["tokens"]); part = split_items(o2["tokens"])
        if dedup and "paths" in o1:
            pass
        for p, s in part.items():
            if p not in full: res["violations"].append({"what": "item %s exists only in the restricted output (closure of id %d)" % ("::".join(p), root), "case": c1, "case2": c2, "kind": "restrict-items"})
            elif full[p] != s:
                res["violations"].append({"what": "item %s differs between the full registry and the closure of id %d: %s vs %s" % ("::".join(p), root, full[p][:200], s[:200]), "case": c1, "case2": c2, "kind": "restrict-items"})
        if hash(tuple(eng.decisions)) % 3 == 0: res["validate"] = dict(c2, expect={"result": "Ok", "tokens": plain_tok_str(concretize_tokens(o2["tokens"], m))})
        return res
    return Family(name, mk, run, target_prefixes=min(16, len(roots)))

def describe_restrict_family(name, reg0, roots):
    """descriptions and examples of retained ids are unchanged by restricting the registry to a reachability closure"""
    from models_ex import canon
    import c13
    def setup(eng): eng.rng_mode = "exact"; eng.max_depth = 2000
    def mk(eng): return eng.choose([(i, True) for i in roots])
    def run(eng, root):
        res = {"violations": [], "outcome": "Ok"}
        sub, newid = restrict(reg0, [root])
        fv, sv = to_engine(reg0), to_engine(sub)
        st = ST.apply(eng)
        for old, new in sorted(newid.items())[:10]:
            a = c13.describe_id(eng, fv, old, False); b = c13.describe_id(eng, sv, new, False)
            ta = c13.pieces_text(a[1], None) if a[0] == "Ok" else "ERR"; tb = c13.pieces_text(b[1], None) if b[0] == "Ok" else "ERR"
            if ta != tb: res["violations"].append({"what": "description of id %d changes under restriction to the closure of %d: %r vs %r" % (old, root, ta[:150], tb[:150]),
                                                   "case": {"op": "describe", "reg": regdsl.encode(reg0).hex(), "id": str(old), "format": "0"}, "case2": {"op": "describe", "reg": regdsl.encode(sub).hex(), "id": str(new), "format": "0"}, "kind": "restrict-describe"})
            ra = eng.call("scale_value::example_from_seed", [], [Sc("u32", old), Slot([fv], 0), Sc("u64", 42)]); rb = eng.call("scale_value::example_from_seed", [], [Sc("u32", new), Slot([sv], 0), Sc("u64", 42)])
            def cv(r):
                if r.idx == 1: return "ERR"
                out = []; canon(r.f[0], out); return "".join(out)
            if cv(ra) != cv(rb): res["violations"].append({"what": "example value of id %d changes under restriction to the closure of %d: %s vs %s" % (old, root, cv(ra)[:120], cv(rb)[:120]),
                                                           "case": {"op": "scale_example", "reg": regdsl.encode(reg0).hex(), "id": str(old), "seed": "42", "nseeds": "1"}, "case2": {"op": "scale_example", "reg": regdsl.encode(sub).hex(), "id": str(new), "seed": "42", "nseeds": "1"}, "kind": "restrict-example"})
        return res
    return Family(name, mk, run, target_prefixes=16, setup=setup)

def families(eng, tier, seed):
    C = corpus(); fams = []; rnd = random.Random(seed + 17)
    for n in ("containers", "enum", "generics", "rec", "modules", "compact", "calls", "reach", "collections", "bits"):
        r = C[n]; roots = user_ids(r)
        if tier == "quick": roots = roots[:8]
        fams.append(describe_restrict_family("restrict-describe-%s" % n, r, roots))
    # three (thorough: four) definitions under one path, each with two fields drawn from three primitives: the shape
    # groups that de-duplication forms must not depend on the order in which the members are met
    def members(k):
        def mkreg(eng):
            reg = [prim("U8"), prim("U16"), prim("Bool")]; names = ["u8", "u16", "bool"]
            for j in range(k):
                x = eng.choose([(i, True) for i in range(3)]); y = eng.choose([(i, True) for i in range(3)])
                reg.append(comp(["m", "Foo"], [fld("a", x, names[x]), fld("b", y, names[y])]))
            reg.append(comp(["m", "H"], [fld("f%d" % j, 3 + j, "Foo") for j in range(k)]))
            return reg
        return mkreg
    n3 = 3 + 3 + 1
    fams.append(perm_family("perm-three-shapes", None, [list(reversed(range(n3))), [0, 1, 2, 4, 5, 3, 6], [0, 1, 2, 5, 3, 4, 6], [0, 1, 2, 4, 3, 5, 6]], True, mkreg=members(3)))
    if tier == "thorough": fams.append(perm_family("perm-four-shapes", None, [list(reversed(range(8))), [0, 1, 2, 4, 5, 6, 3, 7], [0, 1, 2, 6, 5, 4, 3, 7]], True, mkreg=members(4)))
    for n, r in C.items():
        if n in SKIP: continue
        if tier == "quick" and len(r) > 45: continue
        multi = len({tuple(t["path"]) for t in r if t["path"]}) < sum(1 for t in r if t["path"])
        dd = n in ("versions", "versions_hdr", "versions_hdr_mirror", "assoc_skip", "assoc_noskip", "assoc_same", "assoc_twins")
        reg = strip_segment(r, ("v1", "v2")) if n == "versions" else strip_segment(r, ("h1", "h2")) if n in ("versions_hdr", "versions_hdr_mirror") else r
        ps = perms_for(len(reg), tier, rnd)
        if ps: fams.append(perm_family("perm-%s" % n, reg, ps, dd))
        ips = []
        for t in reg:
            if len(t["path"]) >= 2 and t["def"][0] in ("composite", "variant") and t["path"] not in ips: ips.append(t["path"])
        if ps and len(ips) >= 2 and not dd:
            # two recursive derive roots with different derives (registry order must not matter for who inherits what)
            for (a, b) in ([(ips[0], ips[-1]), (ips[1], ips[-1])] if len(ips) > 2 else [(ips[0], ips[1])]):
                st2 = ST + Settings(["derive_rec %s => RecA" % "::".join(a), "derive_rec %s => RecB" % "::".join(b), "attrtok_rec %s => ra" % "::".join(b)])
                fams.append(perm_family("perm-recderives-%s-%s-%s" % (n, a[-1], b[-1]), reg, ps[:8] if tier == "quick" else ps, dd, ST=st2))
        roots = user_ids(reg)
        if roots and not dd: fams.append(restrict_family("restrict-%s" % n, reg, roots, dd))
    return fams

def confirm(v, real):
    if "panic" in real: return True
    r2 = run_replay([v["case2"]])[0]
    if v["kind"] in ("restrict-describe", "restrict-example"):
        return (real.get("ok", real.get("err")) != r2.get("ok", r2.get("err"))) if v["kind"] == "restrict-describe" else (real.get("value") != r2.get("value"))
    o1 = real.get("result") if real.get("result") == "Ok" else "Err:%s" % real.get("err_variant"); o2 = r2.get("result") if r2.get("result") == "Ok" else "Err:%s" % r2.get("err_variant")
    k = v["kind"]
    if k in ("perm-outcome", "restrict-outcome"): return o1 != o2
    if k == "perm-groups" and not ("paths" in real and "paths" in r2): return False
    if k != "perm-groups" and (o1 != "Ok" or o2 != "Ok"): return False
    if k == "perm-tokens": return real["tokens"] != r2["tokens"]
    if k == "perm-groups":
        perm = v["perm"]; g1 = {}; g2 = {}
        for i, p in enumerate(real["paths"].split(",")): g1.setdefault(p, set()).add(i)
        for kk, p in enumerate(r2["paths"].split(",")): g2.setdefault(p, set()).add(perm[kk])
        return sorted(map(sorted, g1.values())) != sorted(map(sorted, g2.values()))
    if k == "restrict-describe": return real.get("ok", real.get("err")) != r2.get("ok", r2.get("err"))
    if k == "restrict-example": return real.get("value") != r2.get("value")
    if k == "restrict-items":
        full = split_items(tokenize(real["tokens"])); part = split_items(tokenize(r2["tokens"]))
        return any(p not in full or full[p] != s for p, s in part.items())
    return False
def classify(v):
    w = v["what"]
    if v["kind"] == "perm-tokens" and "PhantomData" in w: return "phantom-marker-order"
    return v["kind"]
if __name__ == "__main__":
    main(sys.modules[__name__])
