"""C11: settings validation is sound and complete."""
import os, sys
sys.path.insert(0, os.path.dirname(os.path.abspath(__file__)))
from gen_common import *
import c01, c08

ID = "C11"
CRATES = ("typegen",)
FUNCTIONS = ["validation::{validate_substitutes_and_derives_against_registry, registry_contains_type_path, similar_type_paths_in_registry, path_segments_to_syn_path}", "DerivesRegistry::derives_on_specific_types", "TypeSubstitutes::iter",
             "substitutes::{path_segments, TryIntoSynPath::syn_path}", "SettingsValidationError::is_empty", "DerivesRegistry::add_*", "TypeSubstitutes::insert"]
MODELS = c01.MODELS
ASSUMPTIONS = ["registries: corpus 'modules', 'enum', 'generics' (nested paths, several entries with one path); settings paths are fork-chosen from a pool of known paths and unknown paths (proper suffix of a known path, same final identifier under another prefix, unrelated path)",
               "iteration order of the derive and substitute maps: every permutation (forked); the error lists are compared as sets of (path, set) entries with 'each path once'"]
BOUNDS = {"quick": {"registered derive/attribute entries": "2 free (kind x path) + 1 fixed", "substitutes": "0-2", "pool": "6 paths"}, "thorough": {"registered entries": "3 free on the `enum` registry (1.7 million paths on all four took more than 40 minutes), 2 free elsewhere with forked hash orders; similar-path queries on every corpus registry"}}
OUTSIDE = ["more than 3 registered entries / 2 substitutes"]
GLOBAL_WITNESSES = ("Ok", "Err")

KINDS = ["derive_for", "derive_rec", "attrtok_for", "attrtok_rec"]
def pool_for(reg):
    ips = c08.item_paths(reg)
    known = ["::".join(ips[0]), "::".join(ips[-1])]
    deep = max(ips, key=len)
    unknown = ["::".join(deep[1:]), "other::" + deep[-1], deep[-1], "no::such::Type"]
    prelude = [t["path"][0] for t in reg if len(t["path"]) == 1][:1]        # a single-segment prelude path of the registry is a known path too
    return known + prelude + [u for u in unknown if u.split("::") not in ips]

def expected(reg, entries, substs):
    paths = [t["path"] for t in reg]
    der = {}; att = {}
    for kind, p, item in entries:
        if p.split("::") in paths: continue
        (der if kind.startswith("derive") else att).setdefault(p, set()).add(c08.norm(item) if kind.startswith("derive") else "#[%s]" % c08.norm(item))
    sub = {}
    for s, t in substs:
        sp = parse_type(P(tokenize(s)))[2]
        if sp not in paths: sub["::".join(sp)] = c08.norm(t)
    return der, att, sub

def read_engine_result(eng, r):
    if r.idx == 0: return None
    e = r.f[0]
    def lst(v): return [x for x in deref(v).items]
    def show(x):
        ts = TS(); models_tok.to_tokens(eng, x, ts); return c08.norm(eng_tok_str(ts))
    der = [(show(x.f[0]), sorted(show(d) for d in deref(x.f[1]).items)) for x in lst(e.f[0])]
    att = [(show(x.f[0]), sorted(show(d) for d in deref(x.f[1]).items)) for x in lst(e.f[1])]
    sub = [(show(x.f[0]), show(x.f[1])) for x in lst(e.f[2])]
    return der, att, sub
def judge(got, want):
    """got: None or (der list, att list, sub list); want: (der dict, att dict, sub dict)"""
    wd, wa, ws = want; probs = []
    if got is None:
        if wd or wa or ws: probs.append("validation succeeds although %s are unknown" % sorted(set(wd) | set(wa) | set(ws)))
        return probs
    gd, ga, gs = got
    if not (wd or wa or ws): probs.append("validation fails although every path is known: %s" % (got,)); return probs
    for name, g, w in (("derives", gd, wd), ("attributes", ga, wa)):
        ps = [p for p, _ in g]
        if len(set(ps)) != len(ps): probs.append("%s list names a path more than once: %s" % (name, ps))
        gm = {}
        for p, items in g: gm.setdefault(p, set()).update(items)
        wm = {c08.norm(p): set(v) for p, v in w.items()}
        if gm != wm: probs.append("%s for unknown types are %s, expected %s" % (name, {k: sorted(v) for k, v in gm.items()}, {k: sorted(v) for k, v in wm.items()}))
    gsm = sorted(gs); wsm = sorted((c08.norm(p), t) for p, t in ws.items())
    if gsm != wsm: probs.append("substitutes for unknown types are %s, expected %s" % (gsm, wsm))
    return probs

import models_tok
def make_family(name, reg0, nfree, hash_order):
    pool = pool_for(reg0)
    ips = c08.item_paths(reg0)
    subs_opts = [[], [("::".join(ips[0]), "::ext::K")], [("gone::Missing<A>", "::ext::M<A>")], [("::".join(ips[0]), "::ext::K"), (pool[2], "::ext::S")]]
    def mk(eng):
        entries = []
        for k in range(nfree):
            kind = eng.choose([(x, True) for x in KINDS]); p = eng.choose([(x, True) for x in range(len(pool))])
            entries.append((kind, pool[p], ("D%d" % k) if kind.startswith("derive") else ("at%d(x)" % k)))
        so = eng.choose([(i, True) for i in range(len(subs_opts))])
        # fixed part: the same unknown path registered both specifically and recursively with different derive sets, plus an attribute
        fixed = [("derive_for", pool[-1], "Fs"), ("derive_rec", pool[-1], "Fr"), ("attrtok_rec", pool[-1], "fa")] if eng.choose([(0, True), (1, True)]) else []
        return entries + fixed, subs_opts[so]
    def run(eng, ctx):
        entries, substs = ctx
        d = ["%s %s => %s" % e for e in entries] + ["subst %s => %s" % s for s in substs]
        st = Settings(d)
        s = st.apply(eng)
        regv = to_engine(reg0)
        r = eng.call("validate_substitutes_and_derives_against_registry", [], [Slot(s.f, 3), Slot(s.f, 2), Slot([regv], 0)])
        got = read_engine_result(eng, r)
        want = expected(reg0, entries, substs)
        case = {"op": "validate", "reg": regdsl.encode(reg0).hex(), "set": st.replay()}
        res = {"violations": [], "outcome": "Ok" if got is None else "Err"}
        for p in judge(got, want): res["violations"].append({"what": "%s | settings %s" % (p, d), "case": case, "entries": entries, "substs": substs, "kind": "validate"})
        # similar-path queries
        for q in ([pool[0], pool[3]] if len(pool) > 3 else [pool[0]]):
            v = eng.call("similar_type_paths_in_registry", [], [Slot([regv], 0), Slot([syn_path(q)], 0)])
            gotp = []
            for x in deref(v).items:
                ts = TS(); models_tok.to_tokens(eng, x, ts); gotp.append(c08.norm(eng_tok_str(ts)))
            ident = q.split("::")[-1]
            wantp = ["::".join(t["path"]) for t in reg0 if t["path"] and t["path"][-1] == ident]
            if gotp != wantp: res["violations"].append({"what": "similar paths for %s are %s, expected %s (registry order)" % (q, gotp, wantp), "case": dict(case, similar=[q]), "kind": "similar", "q": q})
        if hash(tuple(eng.decisions)) % 7 == 0:
            exp = {"result": "Ok" if got is None else "Err"}
            res["validate"] = dict(case, expect=exp); res["sample"] = {"settings": d}
        return res
    return Family(name, mk, run, hash_order=hash_order, target_prefixes=64)

def similar_family():
    """same final identifier under several modules, registry order different from every sorted order"""
    reg = [prim("U8"), comp(["zeta", "S"], [fld("a", 0, "u8")]), comp(["alpha", "beta", "S"], [fld("a", 0, "u8")]), comp(["mid", "S"], []), comp(["alpha", "S"], [fld("b", 0, "u8")]),
           comp(["mid", "T"], [fld("a", 1, "S"), fld("b", 2, "S"), fld("c", 3, "S"), fld("d", 4, "S")]), comp(["mid", "q", "S"], [])]
    def mk(eng): return eng.choose([(q, True) for q in ("S", "x::S", "mid::S", "T", "nope::U", "alpha::beta::S")])
    def run(eng, q):
        regv = to_engine(reg); res = {"violations": [], "outcome": "Err"}
        v = eng.call("similar_type_paths_in_registry", [], [Slot([regv], 0), Slot([syn_path(q)], 0)])
        gotp = []
        for x in deref(v).items:
            ts = TS(); models_tok.to_tokens(eng, x, ts); gotp.append(c08.norm(eng_tok_str(ts)))
        wantp = ["::".join(t["path"]) for t in reg if t["path"] and t["path"][-1] == q.split("::")[-1]]
        case = {"op": "validate", "reg": regdsl.encode(reg).hex(), "set": [], "similar": [q]}
        if gotp != wantp: res["violations"].append({"what": "similar paths for %s are %s, expected %s (registry order)" % (q, gotp, wantp), "case": case, "kind": "similar", "q": q})
        res["validate"] = dict(case, expect={"similar_" + q.replace(" ", ""): ",".join(gotp)})
        return res
    return Family("similar-paths-unsorted-registry", mk, run, target_prefixes=1)
def similar_corpus_family(name, reg):
    """every final identifier that occurs in the registry (also of single-segment prelude paths such as Option), asked
    for bare, below another module and below its own module path"""
    idents = []
    for t in reg:
        if t["path"] and t["path"][-1] not in idents: idents.append(t["path"][-1])
    qs = []
    for x in idents: qs += [x, "other::" + x, "core::option::" + x]
    def mk(eng): return eng.choose([(q, True) for q in qs])
    def run(eng, q):
        regv = to_engine(reg); res = {"violations": [], "outcome": "Err"}
        v = eng.call("similar_type_paths_in_registry", [], [Slot([regv], 0), Slot([syn_path(q)], 0)])
        gotp = []
        for x in deref(v).items:
            ts = TS(); models_tok.to_tokens(eng, x, ts); gotp.append(c08.norm(eng_tok_str(ts)))
        wantp = ["::".join(t["path"]) for t in reg if t["path"] and t["path"][-1] == q.split("::")[-1]]
        case = {"op": "validate", "reg": regdsl.encode(reg).hex(), "set": [], "similar": [q]}
        if gotp != wantp: res["violations"].append({"what": "similar paths for %s are %s, expected %s (registry order)" % (q, gotp, wantp), "case": case, "kind": "similar", "q": q})
        if hash(q) % 5 == 0: res["validate"] = dict(case, expect={"similar_" + q.replace(" ", ""): ",".join(gotp)})
        return res
    return Family(name, mk, run, target_prefixes=1)
def families(eng, tier, seed):
    C = corpus(); fams = [similar_family()]
    for n in (("containers", "collections", "modules") if tier == "quick" else list(C)): fams.append(similar_corpus_family("similar-paths-" + n, C[n]))
    for n in ("modules", "enum", "generics", "collections"):
        fams.append(make_family("validate-%s" % n, C[n], 3 if (tier == "thorough" and n == "enum") else 2, "fork" if n != "generics" or tier == "thorough" else "reversed"))
    return fams

def parse_real(real):
    if real.get("result") == "Ok": return None
    def lst(k):
        v = real.get(k, []); v = v if isinstance(v, list) else [v]
        return v
    der = [(x.split("|")[0], sorted(y for y in x.split("|")[1].split(",") if y)) for x in lst("derives")]
    att = [(x.split("|")[0], sorted(y for y in x.split("|")[1].split(",") if y)) for x in lst("attrs")]
    sub = [tuple(x.split("|")) for x in lst("substs")]
    return der, att, sub
def confirm(v, real):
    if "panic" in real: return True
    reg = regdsl.decode(bytes.fromhex(v["case"]["reg"]))
    if v["kind"] == "validate": return bool(judge(parse_real(real), expected(reg, [tuple(e) for e in v["entries"]], [tuple(s) for s in v["substs"]])))
    if v["kind"] == "similar":
        q = v["q"]; got = [x for x in real.get("similar_" + q.replace(" ", ""), "").split(",") if x]
        want = ["::".join(t["path"]) for t in reg if t["path"] and t["path"][-1] == q.split("::")[-1]]
        return got != want
    return False
def classify(v):
    w = v["what"]
    for k in ("succeeds although", "fails although", "more than once", "derives for unknown", "attributes for unknown", "substitutes for unknown", "similar paths"):
        if k in w: return k
    return "other"
if __name__ == "__main__":
    main(sys.modules[__name__])
