"""Registry DSL: plain-Python description of a scale_info::PortableRegistry whose scalar data may be z3 terms.

  registry = [entry, ...]                      entry i gets id i unless entry["id"] is given (fault injection)
  entry    = {"path": [str], "params": [(name, id|None)], "def": DEF, "docs": [str]}
  DEF      = ("composite", [field]) | ("variant", [variant]) | ("sequence", id) | ("array", len, id) | ("tuple", [id])
           | ("primitive", "U8") | ("compact", id) | ("bitseq", store_id, order_id)
  field    = {"name": str|None, "ty": id, "type_name": str|None, "docs": [str]}
  variant  = {"name": str, "fields": [field], "index": u8, "docs": [str]}
ids / len / index: python int or z3 BitVec(32 / 32 / 8).
Conversions: decode (SCALE bytes -> DSL), encode (concrete DSL -> SCALE bytes), to_engine (DSL -> engine values),
concretize (DSL + z3 model -> concrete DSL)."""
import copy, z3
from engine import *

PRIMS = ["Bool", "Char", "Str", "U8", "U16", "U32", "U64", "U128", "U256", "I8", "I16", "I32", "I64", "I128", "I256"]
TD = ["Composite", "Variant", "Sequence", "Array", "Tuple", "Primitive", "Compact", "BitSequence"]
KIND = {"composite": 0, "variant": 1, "sequence": 2, "array": 3, "tuple": 4, "primitive": 5, "compact": 6, "bitseq": 7}

# ------------------------------------------------------------------ SCALE decode
class Rd:
    def __init__(self, b): self.b = b; self.i = 0
    def u8(self): self.i += 1; return self.b[self.i-1]
    def compact(self):
        b0 = self.b[self.i]; mode = b0 & 3
        if mode == 0: self.i += 1; return b0 >> 2
        if mode == 1: v = int.from_bytes(self.b[self.i:self.i+2], "little") >> 2; self.i += 2; return v
        if mode == 2: v = int.from_bytes(self.b[self.i:self.i+4], "little") >> 2; self.i += 4; return v
        n = (b0 >> 2) + 4; v = int.from_bytes(self.b[self.i+1:self.i+1+n], "little"); self.i += 1 + n; return v
    def string(self):
        n = self.compact(); s = self.b[self.i:self.i+n].decode(); self.i += n; return s
    def vec(self, f): return [f() for _ in range(self.compact())]
    def opt(self, f): return f() if self.u8() else None
    def u32(self): v = int.from_bytes(self.b[self.i:self.i+4], "little"); self.i += 4; return v

def _rd_field(r):
    name = r.opt(r.string); ty = r.compact(); tn = r.opt(r.string); docs = r.vec(r.string)
    return {"name": name, "ty": ty, "type_name": tn, "docs": docs}
def _rd_type(r):
    path = r.vec(r.string)
    params = r.vec(lambda: (r.string(), r.opt(r.compact)))
    k = r.u8()
    if k == 0: d = ("composite", r.vec(lambda: _rd_field(r)))
    elif k == 1:
        def var():
            name = r.string(); fields = r.vec(lambda: _rd_field(r)); idx = r.u8(); docs = r.vec(r.string)
            return {"name": name, "fields": fields, "index": idx, "docs": docs}
        d = ("variant", r.vec(var))
    elif k == 2: d = ("sequence", r.compact())
    elif k == 3: ln = r.u32(); d = ("array", ln, r.compact())
    elif k == 4: d = ("tuple", r.vec(r.compact))
    elif k == 5: d = ("primitive", PRIMS[r.u8()])
    elif k == 6: d = ("compact", r.compact())
    elif k == 7: st = r.compact(); od = r.compact(); d = ("bitseq", st, od)
    else: raise ValueError("typedef kind %d" % k)
    docs = r.vec(r.string)
    return {"path": path, "params": params, "def": d, "docs": docs}
def decode(b):
    r = Rd(b); out = []
    for _ in range(r.compact()):
        i = r.compact(); t = _rd_type(r)
        if i != len(out): t["id"] = i
        out.append(t)
    assert r.i == len(b), "trailing bytes"
    return out

# ------------------------------------------------------------------ SCALE encode (concrete)
def _compact(n):
    if n < 1 << 6: return bytes([n << 2])
    if n < 1 << 14: return ((n << 2) | 1).to_bytes(2, "little")
    if n < 1 << 30: return ((n << 2) | 2).to_bytes(4, "little")
    bl = (n.bit_length() + 7) // 8
    return bytes([((bl - 4) << 2) | 3]) + n.to_bytes(bl, "little")
def _str(s): b = s.encode(); return _compact(len(b)) + b
def _vec(xs, f): return _compact(len(xs)) + b"".join(f(x) for x in xs)
def _opt(x, f): return b"\0" if x is None else b"\1" + f(x)
def _field(f): return _opt(f["name"], _str) + _compact(f["ty"]) + _opt(f.get("type_name"), _str) + _vec(f.get("docs", []), _str)
def _type(t):
    out = _vec(t["path"], _str) + _vec(t["params"], lambda p: _str(p[0]) + _opt(p[1], _compact))
    d = t["def"]; k = d[0]; out += bytes([KIND[k]])
    if k == "composite": out += _vec(d[1], _field)
    elif k == "variant": out += _vec(d[1], lambda v: _str(v["name"]) + _vec(v["fields"], _field) + bytes([v["index"]]) + _vec(v.get("docs", []), _str))
    elif k == "sequence": out += _compact(d[1])
    elif k == "array": out += d[1].to_bytes(4, "little") + _compact(d[2])
    elif k == "tuple": out += _vec(d[1], _compact)
    elif k == "primitive": out += bytes([PRIMS.index(d[1])])
    elif k == "compact": out += _compact(d[1])
    elif k == "bitseq": out += _compact(d[1]) + _compact(d[2])
    return out + _vec(t.get("docs", []), _str)
def encode(reg):
    return _compact(len(reg)) + b"".join(_compact(t.get("id", i)) + _type(t) for i, t in enumerate(reg))

# ------------------------------------------------------------------ to engine values
def S(x):
    if isinstance(x, StrV): return x
    return StrV([x]) if x != "" else StrV([])
def _sc(v, ty): return v if isinstance(v, Sc) else Sc(ty, v)
def _sym(i): return Agg("UntrackedSymbol", [_sc(i, "u32"), UNIT])
def _strs(xs): return VecV([S(x) for x in xs])
def _efield(f):
    return Agg("Field", [some(S(f["name"])) if f["name"] is not None else none(), _sym(f["ty"]),
                         some(S(f["type_name"])) if f.get("type_name") is not None else none(), _strs(f.get("docs", []))])
def _etype(t):
    d = t["def"]; k = d[0]
    if k == "composite": dv = Agg("TypeDefComposite", [VecV([_efield(f) for f in d[1]])])
    elif k == "variant": dv = Agg("TypeDefVariant", [VecV([Agg("Variant", [S(v["name"]), VecV([_efield(f) for f in v["fields"]]), _sc(v["index"], "u8"), _strs(v.get("docs", []))]) for v in d[1]])])
    elif k == "sequence": dv = Agg("TypeDefSequence", [_sym(d[1])])
    elif k == "array": dv = Agg("TypeDefArray", [_sc(d[1], "u32"), _sym(d[2])])
    elif k == "tuple": dv = Agg("TypeDefTuple", [VecV([_sym(x) for x in d[1]])])
    elif k == "primitive": dv = En("TypeDefPrimitive", PRIMS.index(d[1]), d[1], [])
    elif k == "compact": dv = Agg("TypeDefCompact", [_sym(d[1])])
    elif k == "bitseq": dv = Agg("TypeDefBitSequence", [_sym(d[1]), _sym(d[2])])
    return Agg("Type", [Agg("Path", [_strs(t["path"])]),
                        VecV([Agg("TypeParameter", [S(n), some(_sym(i)) if i is not None else none()]) for n, i in t["params"]]),
                        En("TypeDef", KIND[k], TD[KIND[k]], [dv]), _strs(t.get("docs", []))])
def to_engine(reg):
    return Agg("PortableRegistry", [VecV([Agg("PortableType", [_sc(t.get("id", i), "u32"), _etype(t)]) for i, t in enumerate(reg)])])

# ------------------------------------------------------------------ concretize
def _cv(v, m):
    if isinstance(v, Sc): v = v.v
    if isinstance(v, (int, str)) or v is None: return v
    if isinstance(v, bool): return v
    r = m.eval(v, model_completion=True)
    return r.as_long() if z3.is_bv(r) or z3.is_int(r) else z3.is_true(r)
def concretize(x, m):
    if isinstance(x, dict): return {k: concretize(v, m) for k, v in x.items()}
    if isinstance(x, list): return [concretize(v, m) for v in x]
    if isinstance(x, tuple): return tuple(concretize(v, m) for v in x)
    return _cv(x, m)
def clone(reg): return copy.deepcopy(reg) if not any(True for _ in _z3_in(reg)) else _clone(reg)
def _z3_in(x):
    if isinstance(x, dict):
        for v in x.values(): yield from _z3_in(v)
    elif isinstance(x, (list, tuple)):
        for v in x: yield from _z3_in(v)
    elif isinstance(x, z3.ExprRef): yield x
def _clone(x):
    if isinstance(x, dict): return {k: _clone(v) for k, v in x.items()}
    if isinstance(x, list): return [_clone(v) for v in x]
    if isinstance(x, tuple): return tuple(_clone(v) for v in x)
    return x

# ------------------------------------------------------------------ helpers
def prim(p): return {"path": [], "params": [], "def": ("primitive", p), "docs": []}
def fld(name, ty, type_name=None, docs=()): return {"name": name, "ty": ty, "type_name": type_name, "docs": list(docs)}
def comp(path, fields, params=(), docs=()): return {"path": list(path), "params": list(params), "def": ("composite", list(fields)), "docs": list(docs)}
def var(name, fields, index, docs=()): return {"name": name, "fields": list(fields), "index": index, "docs": list(docs)}
def enum(path, variants, params=(), docs=()): return {"path": list(path), "params": list(params), "def": ("variant", list(variants)), "docs": list(docs)}
def seq(i): return {"path": [], "params": [], "def": ("sequence", i), "docs": []}
def arr(n, i): return {"path": [], "params": [], "def": ("array", n, i), "docs": []}
def tup(ids): return {"path": [], "params": [], "def": ("tuple", list(ids)), "docs": []}
def cpt(i): return {"path": [], "params": [], "def": ("compact", i), "docs": []}
def bits(s, o): return {"path": [], "params": [], "def": ("bitseq", s, o), "docs": []}

def refs(t):
    """ids referenced by an entry (params excluded), in order"""
    d = t["def"]; k = d[0]
    if k == "composite": return [f["ty"] for f in d[1]]
    if k == "variant": return [f["ty"] for v in d[1] for f in v["fields"]]
    if k in ("sequence", "compact"): return [d[1]]
    if k == "array": return [d[2]]
    if k == "tuple": return list(d[1])
    if k == "bitseq": return [d[1], d[2]]
    return []
def reachable(reg, roots, with_params=True):
    seen = set(); work = list(roots)
    while work:
        i = work.pop()
        if i in seen or i >= len(reg): continue
        seen.add(i)
        work += refs(reg[i])
        if with_params: work += [p for _, p in reg[i]["params"] if p is not None]
    return seen
def describe(reg, maxn=40):
    """compact printable form (for evidence samples)"""
    out = []
    for i, t in enumerate(reg[:maxn]):
        d = t["def"]; k = d[0]
        p = "::".join(t["path"]) + ("<%s>" % ",".join("%s=%s" % (n, x) for n, x in t["params"]) if t["params"] else "")
        if k == "composite": b = "{%s}" % ", ".join("%s:%s%s" % (f["name"] or "_", f["ty"], ("~" + f["type_name"]) if f.get("type_name") else "") for f in d[1])
        elif k == "variant": b = "enum{%s}" % ", ".join("%s=%s(%s)" % (v["name"], v["index"], ",".join("%s:%s" % (f["name"] or "_", f["ty"]) for f in v["fields"])) for v in d[1])
        else: b = "%s%s" % (k, list(d[1:]))
        out.append("%s: %s %s" % (t.get("id", i), p, b))
    return out

def map_ids(t, f):
    """entry with every referenced id (fields, params, elements) mapped through f"""
    t = _clone(t)
    t["params"] = [(n, None if p is None else f(p)) for n, p in t["params"]]
    d = t["def"]; k = d[0]
    if k == "composite":
        for fl in d[1]: fl["ty"] = f(fl["ty"])
    elif k == "variant":
        for v in d[1]:
            for fl in v["fields"]: fl["ty"] = f(fl["ty"])
    elif k in ("sequence", "compact"): t["def"] = (k, f(d[1]))
    elif k == "array": t["def"] = (k, d[1], f(d[2]))
    elif k == "tuple": t["def"] = (k, [f(x) for x in d[1]])
    elif k == "bitseq": t["def"] = (k, f(d[1]), f(d[2]))
    return t
def permute(reg, order):
    """new registry whose entry k is old entry order[k], ids renumbered consistently"""
    newid = {old: new for new, old in enumerate(order)}
    return [map_ids(reg[old], lambda i: newid[i]) for old in order]
def restrict(reg, roots):
    """reachability-closed sub-registry (order kept, ids renumbered); returns (new registry, old->new id map)"""
    keep = sorted(reachable(reg, roots))
    newid = {old: new for new, old in enumerate(keep)}
    return [map_ids(reg[old], lambda i: newid[i]) for old in keep], newid
def strip_segment(reg, seg):
    reg = _clone(reg)
    for t in reg: t["path"] = [s for s in t["path"] if s not in seg]
    return reg

# ------------------------------------------------------------------ engine values -> DSL (to read back a mutated registry)
def _s(v):
    v = deref(v); c = v.concrete()
    return c if c is not None else v
def _ffield(f):
    f = deref(f)
    return {"name": _s(f.f[0].f[0]) if f.f[0].idx == 1 else None, "ty": f.f[1].f[0].v, "type_name": _s(f.f[2].f[0]) if f.f[2].idx == 1 else None, "docs": [_s(x) for x in deref(f.f[3]).items]}
def from_engine(regv):
    out = []
    for i, pt in enumerate(deref(regv).f[0].items):
        pt = deref(pt); t = deref(pt.f[1]); d = t.f[2]; k = d.name; dv = deref(d.f[0])
        if k == "Composite": df = ("composite", [_ffield(f) for f in deref(dv.f[0]).items])
        elif k == "Variant": df = ("variant", [{"name": _s(deref(v).f[0]), "fields": [_ffield(f) for f in deref(deref(v).f[1]).items], "index": deref(v).f[2].v, "docs": [_s(x) for x in deref(deref(v).f[3]).items]} for v in deref(dv.f[0]).items])
        elif k == "Sequence": df = ("sequence", dv.f[0].f[0].v)
        elif k == "Array": df = ("array", dv.f[0].v, dv.f[1].f[0].v)
        elif k == "Tuple": df = ("tuple", [x.f[0].v for x in deref(dv.f[0]).items])
        elif k == "Primitive": df = ("primitive", dv.name)
        elif k == "Compact": df = ("compact", dv.f[0].f[0].v)
        else: df = ("bitseq", dv.f[0].f[0].v, dv.f[1].f[0].v)
        e = {"path": [_s(x) for x in deref(t.f[0].f[0]).items], "params": [(_s(deref(p).f[0]), deref(p).f[1].f[0].f[0].v if deref(p).f[1].idx == 1 else None) for p in deref(t.f[1]).items],
             "def": df, "docs": [_s(x) for x in deref(t.f[3]).items]}
        if not (isinstance(pt.f[0].v, int) and pt.f[0].v == i): e["id"] = pt.f[0].v
        out.append(e)
    return out
