"""Structural well-formedness of an emitted module tree (the clauses of C02 that a reader can decide):
closed paths with matching arity, `use super::<root>` chain, declared parameters used, by-value acyclicity."""
from .tokens import *

HEAP = {"vec::Vec", "boxed::Box", "collections::BTreeMap", "collections::BTreeSet", "collections::BinaryHeap", "collections::VecDeque",
        "collections::LinkedList", "string::String", "borrow::Cow"}
BYVALUE1 = {"core::option::Option", "core::ops::Range", "core::ops::RangeInclusive"}

def check_module(root, module, settings_alloc=("std",), compact_path=None, bits_path=None):
    """returns list of problem strings"""
    probs = []
    alloc = "::".join(settings_alloc)
    cp = compact_path.replace(" ", "").lstrip(":") if compact_path else None
    bp = bits_path.replace(" ", "").lstrip(":") if bits_path else None
    items = {(root,) + p: it for p, it in walk_items(module)}
    # 1. use chain
    for p, m in walk_mods(module):
        want = [("i", "super"), ("p", ":", True), ("p", ":", False), ("i", root)]
        if not any(list(u) == want for u in m["uses"]): probs.append("module %s lacks `use super::%s`" % ("::".join((root,) + p), root))
        if len(m["uses"]) != 1: probs.append("module %s has %d use items" % ("::".join((root,) + p), len(m["uses"])))
    # 2. closed paths + arity
    def check_ty(ty, params, where):
        for t in walk_type(ty):
            if t[0] != "path": continue
            _, lead, segs, args = t
            nargs = [a for a in args if a[0] != "lifetime"]
            if not lead and len(segs) == 1 and segs[0] in params:
                if args: probs.append("%s: parameter %s applied to arguments" % (where, segs[0]))
                continue
            if not lead and segs[0] == root:
                it = items.get(tuple(segs))
                if it is None: probs.append("%s: path %s does not resolve to an emitted item" % (where, "::".join(segs))); continue
                if len(nargs) != len(it["params"]): probs.append("%s: %s applied to %d generic arguments but declares %d" % (where, "::".join(segs), len(nargs), len(it["params"])))
                continue
            if not lead:
                p = "::".join(segs)
                if p not in (cp, bp): probs.append("%s: relative path %s is neither a parameter nor rooted at the types module" % (where, p))
    for p, it in items.items():
        params = set(it["params"])
        if len(params) != len(it["params"]): probs.append("%s: duplicate generic parameter" % "::".join(p))
        for ty in types_in_item(it): check_ty(ty, params, "::".join(p))
        # 3. every declared parameter occurs in a field type or in the marker
        used = set()
        for ty in types_in_item(it):
            for t in walk_type(ty):
                if t[0] == "path" and not t[1] and len(t[2]) == 1 and t[2][0] in params: used.add(t[2][0])
        for q in it["params"]:
            if q not in used: probs.append("%s: declared parameter %s is used by no field and no PhantomData marker" % ("::".join(p), q))
        # struct forms
        if it["kind"] == "struct":
            for f in it["fields"]:
                if not f["pub"]: probs.append("%s: non-pub field" % "::".join(p))
        names = [f["name"] for f in it["fields"]] if it["kind"] == "struct" else [v["name"] for v in it["variants"]]
        if len(set(names)) != len(names) and it["kind"] == "enum": probs.append("%s: duplicate variant name" % "::".join(p))
        if it["kind"] == "struct" and it["form"] == "named" and len(set(names)) != len(names): probs.append("%s: duplicate field name" % "::".join(p))
        # derive(CompactAs) needs exactly one non-skipped field
        for d in derive_list(it["attrs"]):
            if d.replace(" ", "").endswith("CompactAs"):
                nf = [f for f in it.get("fields", []) if codec_attr(f["attrs"], "skip") is None and not _is_phantom(f["ty"])]
                if it["kind"] != "struct" or len(nf) != 1: probs.append("%s: derives CompactAs but has %d non-marker fields" % ("::".join(p), len(nf)))
    # 4. by-value acyclicity
    byval_param = {p: set() for p in items}        # parameters of an item that occur by value in it
    def byvalue(ty, params, acc_items, acc_params):
        if ty[0] in ("tuple",):
            for t in ty[1]: byvalue(t, params, acc_items, acc_params)
        elif ty[0] in ("array", "paren"): byvalue(ty[1], params, acc_items, acc_params)
        elif ty[0] == "path":
            _, lead, segs, args = ty
            targs = [a for a in args if a[0] != "lifetime"]
            if not lead and len(segs) == 1 and segs[0] in params: acc_params.add(segs[0]); return
            if not lead and segs[0] == root and tuple(segs) in items:
                tgt = tuple(segs); acc_items.add(tgt)
                for pn, a in zip(items[tgt]["params"], targs):
                    if pn in byval_param[tgt]: byvalue(a, params, acc_items, acc_params)
                return
            p = "::".join(segs)
            if lead and p.startswith(alloc + "::") and p[len(alloc) + 2:] in HEAP: return
            if lead and p == "core::marker::PhantomData": return
            if bp and p == bp: return
            for a in targs: byvalue(a, params, acc_items, acc_params)     # Option, Result, Range, Compact, unknown: by value
    changed = True; edges = {}
    while changed:
        changed = False
        for p, it in items.items():
            ai, ap = set(), set()
            for ty in types_in_item(it): byvalue(ty, set(it["params"]), ai, ap)
            if ap - byval_param[p]: byval_param[p] |= ap; changed = True
            edges[p] = ai
    color = {}
    def dfs(u, stack):
        color[u] = 1
        for v in edges.get(u, ()):
            if color.get(v) == 1:
                probs.append("cycle without heap indirection: %s" % " -> ".join("::".join(x) for x in stack + [u, v])); continue
            if v not in color: dfs(v, stack + [u])
        color[u] = 2
    for p in items:
        if p not in color: dfs(p, [])
    return probs

def _is_phantom(ty): return ty[0] == "path" and ty[2][-1] == "PhantomData"
