"""C01: generated types are wire-faithful to the registry."""
import os, sys
sys.path.insert(0, os.path.dirname(os.path.abspath(__file__)))
from gen_common import *

ID = "C01"
CRATES = ("typegen",)
FUNCTIONS = ["TypeGenerator::{new, generate_types_mod, create_type_ir, create_composite_ir_kind, resolve_type_path, resolve_field_type_path, resolve_type_path_recurse, type_path_maybe_with_substitutes, resolve_type, docs_from_scale_info, add_as_compact_derive}",
             "TypePathType::{from_type_def_path, to_syn_type, parent_type_params, is_compact}", "TypePath::{to_syn_type, parent_type_params, is_compact, is_uint_up_to_u128}",
             "TypeParameters::{from_scale_info, mark_used, unused_params_phantom_data, to_tokens}", "<TypeIR/ModuleIR/CompositeFieldIR/TypePath as ToTokensWithSettings>::to_tokens",
             "CompositeIR::{struct_field_tokens, enum_field_tokens}", "ModuleIR::get_or_insert_submodule", "utils::{sanity_pass, types_equal, types_equal_inner}", "DerivesRegistry::flatten_recursive_derives", "Derives::to_tokens"]
MODELS = ["Vec/slice/Option/Result/iterators", "BTreeMap/BTreeSet/HashMap/HashSet", "proc_macro2 token streams, quote runtime, syn::parse_quote!/parse_str as structured path/type parser+printer (A-syn)", "format!/format_ident!", "scale_info::{Path::namespace, Path::ident, PortableRegistry::resolve}"]
ASSUMPTIONS = ["registries are the ones scale-info derives from replay/src/corpus.rs (well-formed, coincidence-free), with array lengths and variant indices replaced by constrained symbolic terms and fields retargeted only to ids that keep well-formedness",
               "wire meaning of prelude paths (Option, Result, Vec, String, Box, BTreeMap, BTreeSet, BinaryHeap, Range*, NonZero*, Compact, DecodedBits) is a trusted table in oracles/wire.py",
               "byte-level decode/re-encode follows from shape equality by parity-scale-codec's derive semantics (trusted, not executed)", "codec attributes on (as the quantifier says)"]
BOUNDS = {"quick": {"corpus registries": "all", "settings variants": 4, "retargeted fields per registry": "each field, <= 6 alternative targets", "unfolding depth": "min(N+2, 8)"},
          "thorough": {"corpus registries": "all", "settings variants": 12, "retargeted fields per registry": "each field, all admissible targets; pairs of fields in the small registries", "unfolding depth": "min(N+2, 8)"}}
OUTSIDE = ["registries beyond the corpus-derived families", "real chain metadata (used concretely only)", "rustc / codec derive are not run"]
SKIP = {"boxed_param", "empty_enum"}

def settings_variants(tier):
    base = [STD,
            Settings(["mod_name root", "compact_path ::parity_scale_codec::Compact", "bits_path ::scale_bits::DecodedBits", "codec_attrs", "alloc ::alloc", "docs 0"]),
            Settings(["compact_path codec::Compact", "bits_path bits::DecodedBits", "codec_attrs", "compact_as_path ::parity_scale_codec::CompactAs", "derive_all ::core::fmt::Debug"]),
            Settings(["mod_name my_types", "compact_path ::c::Compact", "bits_path ::b::DecodedBits", "codec_attrs", "alloc ::my::alloc_crate", "derive_all Clone", "derive_all Debug"])]
    return base

def src_name(reg, i, depth=0):
    """a plausible recorded source type name for id i (never a bare parameter name, never containing Box<)"""
    t = reg[i]; d = t["def"]; k = d[0]
    if depth > 3: return "X"
    if k == "primitive": return {"Str": "String"}.get(d[1], d[1].lower())
    if k == "sequence": return "Vec<%s>" % src_name(reg, d[1], depth + 1)
    if k == "array": return "[%s; N]" % src_name(reg, d[2], depth + 1)
    if k == "tuple": return "(%s)" % ", ".join(src_name(reg, x, depth + 1) for x in d[1])
    if k == "compact": return "Compact<%s>" % src_name(reg, d[1], depth + 1)
    if k == "bitseq": return "BitVec<%s, %s>" % (src_name(reg, d[1], depth + 1), src_name(reg, d[2], depth + 1))
    n = t["path"][-1] if t["path"] else "Anon"
    ps = [src_name(reg, p, depth + 1) for _, p in t["params"] if p is not None]
    return n + ("<%s>" % ", ".join(ps) if ps else "")

def by_value_reach(reg, i, seen=None):
    """ids reachable from i without passing through a sequence (heap) edge"""
    seen = set() if seen is None else seen
    if i in seen: return seen
    seen.add(i)
    t = reg[i]; d = t["def"]; k = d[0]
    if k == "sequence": return seen
    for r in refs(t): by_value_reach(reg, r, seen)
    return seen

def admissible_targets(reg, ti, f):
    """ids a field of entry ti may be retargeted to while keeping well-formedness and coincidence-freeness"""
    t = reg[ti]
    pids = {p for _, p in t["params"] if p is not None}
    out = []
    for j, u in enumerate(reg):
        if j == f["ty"]: continue
        k = u["def"][0]
        if k == "primitive" and u["def"][1] in ("U256", "I256"): continue
        if u["path"] in (["Lsb0"], ["Msb0"]) or (u["path"] and u["path"][-1] in ("Lsb0", "Msb0")): continue
        if u["path"] == ["Cow"] or u["path"] == ["PhantomData"] or u["path"] == ["Duration"]: continue
        if ti in by_value_reach(reg, j): continue        # would make the type infinitely sized
        # coincidence-freeness: the new component (and what is nested in it) must not be a parameter's concrete id
        nested = reachable(reg, [j])
        if nested & pids: continue
        out.append(j)
    return out

def make_family(name, reg0, settings, retarget=None, symbolic=True, dedup=False):
    ids = list(range(len(reg0)))
    def mk(eng):
        reg = symbolize_leaves(eng, reg0) if symbolic else regdsl._clone(reg0)
        if retarget:
            for (ti, vi, fi, targets) in retarget:
                t = reg[ti]
                f = t["def"][1][fi] if t["def"][0] == "composite" else t["def"][1][vi]["fields"][fi]
                j = eng.choose([(x, True) for x in targets])
                f["ty"] = j; f["type_name"] = src_name(reg0, j)
        return reg
    def run(eng, reg_in):
        out, regv, s = generate(eng, reg_in, settings, resolve=ids, dedup=dedup)
        res = {"violations": []}
        m = eng.model()
        case = replay_gen_case(concretize(reg_in, m), settings, resolve=ids, dedup=dedup)
        reg = with_paths(reg_in, out["paths"]) if "paths" in out else reg_in      # what the generator saw
        if out["result"] == "Err":
            res["outcome"] = "Err:" + out["err"][0]
            res["validate"] = dict(case, expect={"result": "Err", "err_variant": out["err"][0]})
            return res
        res["outcome"] = "Ok"
        for i, msg, mdl in faithful_check(eng, reg, settings, out, ids):
            mm = mdl if mdl is not None else m
            res["violations"].append({"what": msg + " | registry: " + "; ".join(describe(concretize(reg, mm), 12)),
                                      "case": replay_gen_case(concretize(reg_in, mm), settings, resolve=ids, dedup=dedup), "ids": ids})
        exp = {"result": "Ok", "tokens": plain_tok_str(concretize_tokens(out["tokens"], m))}
        if "paths" in out: exp["paths"] = ",".join("::".join(p) for p in out["paths"])
        res["validate"] = dict(case, expect=exp)
        res["sample"] = {"registry": describe(concretize(reg, m), 8), "settings": settings.d}
        return res
    f = Family(name, mk, run, witnesses=(), target_prefixes=1); f.partition = symbolic and not retarget
    return f
GLOBAL_WITNESSES = ("Ok",)

def families(eng, tier, seed):
    fams = []; C = corpus()
    svs = settings_variants(tier)
    for name, reg in C.items():
        if name in SKIP: continue
        multi = len({tuple(t["path"]) for t in reg if t["path"]}) < sum(1 for t in reg if t["path"])
        for si, sv in enumerate(svs if tier == "thorough" else svs[:3]):
            fams.append(make_family("corpus-%s-s%d" % (name, si), reg, sv))
            if multi: fams.append(make_family("corpus-%s-s%d-dedup" % (name, si), reg, sv, dedup=True))
    # real chain metadata (concrete): the whole polkadot registry after de-duplication, and closed sub-registries of it
    P = polkadot()
    PSET = Settings(["compact_path ::parity_scale_codec::Compact", "bits_path ::scale_bits::DecodedBits", "codec_attrs", "compact_as_path ::parity_scale_codec::CompactAs", "derive_all ::parity_scale_codec::Encode", "derive_all ::parity_scale_codec::Decode"])
    if tier == "thorough": fams.append(make_family("polkadot-full-dedup", P, PSET, symbolic=False, dedup=True))
    rnd = random.Random(seed + 1); roots = [i for i in user_ids(P)]; rnd.shuffle(roots); npk = 0
    for r0 in roots:
        sub, _ = restrict(P, [r0])
        if 8 <= len(sub) <= (60 if tier == "quick" else 400):
            fams.append(make_family("polkadot-closure-of-%d" % r0, sub, PSET, symbolic=False, dedup=True)); npk += 1
        if npk >= (5 if tier == "quick" else 40): break
    # same-path families (two definitions under one path differing by one shape edit - fn-local types, two versions of
    # a crate): generation must fail, or (after de-duplication) name each id with an item of its own shape. On a
    # correct tree the first form yields no obligation; a generator that silently merges the two is caught here.
    import c03
    for vn, segs in (("versions", ("v1", "v2")), ("versions_hdr", ("h1", "h2")), ("versions_hdr_mirror", ("h1", "h2"))):
        r = strip_segment(C[vn], segs)
        fams.append(make_family("samepath-%s" % vn, r, STD, symbolic=False)); fams.append(make_family("samepath-%s-dedup" % vn, r, STD, symbolic=False, dedup=True))
        rr = permute(r, list(reversed(range(len(r)))))
        fams.append(make_family("samepath-%s-reversed" % vn, rr, STD, symbolic=False)); fams.append(make_family("samepath-%s-reversed-dedup" % vn, rr, STD, symbolic=False, dedup=True))
    for ename, efn in c03.edits():
        for order in (0, 1):
            r = c03.edit_family(ename, efn, order)(None)
            fams.append(make_family("samepath-%s-o%d" % (ename, order), r, STD, symbolic=False))
            if order == 0 or tier == "thorough": fams.append(make_family("samepath-%s-o%d-dedup" % (ename, order), r, STD, symbolic=False, dedup=True))
    # retargeting: one field at a time
    for name, reg in C.items():
        if name in SKIP or name in ("versions", "assoc_skip", "assoc_noskip", "assoc_same"): continue
        for ti in user_ids(reg):
            t = reg[ti]
            if sum(1 for u in reg if u["path"] == t["path"]) > 1: continue      # same-path families are C03's subject
            pnames = {n for n, _ in t["params"]}
            sites = [(None, fi, f) for fi, f in enumerate(t["def"][1])] if t["def"][0] == "composite" else [(vi, fi, f) for vi, v in enumerate(t["def"][1]) for fi, f in enumerate(v["fields"])]
            for vi, fi, f in sites:
                if f.get("type_name") in pnames: continue            # a parameter-typed field stays a parameter
                if f.get("type_name") and "Box<" in f["type_name"]: continue
                tg = admissible_targets(reg, ti, f)
                if tier == "quick":
                    rnd = random.Random(hash((seed, name, ti, vi, fi)) & 0xFFFF); rnd.shuffle(tg); tg = sorted(tg[:4])
                if tg: fams.append(make_family("retarget-%s-%d.%s.%d" % (name, ti, vi, fi), reg, STD, retarget=[(ti, vi, fi, tg)], symbolic=False))
                if tg and tier == "thorough" and len(reg) <= 12:
                    for vi2, fi2, f2 in sites:
                        if (vi2, fi2) <= (vi, fi) or f2.get("type_name") in pnames or (f2.get("type_name") and "Box<" in f2["type_name"]): continue
                        tg2 = admissible_targets(reg, ti, f2)
                        if tg2: fams.append(make_family("retarget2-%s-%d.%s.%d+%s.%d" % (name, ti, vi, fi, vi2, fi2), reg, svs[1], retarget=[(ti, vi, fi, tg), (ti, vi2, fi2, tg2)], symbolic=False))
    return fams

def confirm(v, real):
    if "panic" in real: return True
    case = v["case"]; reg = regdsl.decode(bytes.fromhex(case["reg"]))
    if real.get("paths"): reg = with_paths(reg, [p.split("::") if p else [] for p in real["paths"].split(",")])
    st = Settings(case["set"])
    return bool(faithful_check_concrete(reg, st, real, v.get("ids") or list(range(len(reg)))))

def classify(v):
    w = v["what"]
    if "panic" in w[:20]: return "panic"
    return "unfaithful"

if __name__ == "__main__":
    main(sys.modules[__name__])
