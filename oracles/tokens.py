"""Independent reader of emitted Rust token trees (shares nothing with the generator).

Token format (same as the engine's proc_macro2 model): ("i", name) | ("l", text-or-symbolic) | ("p", ch, joint) |
("g", delim, TS-like with .t). `tokenize` turns the string printed by the real proc_macro2 into that format."""

class ReaderError(Exception): pass

class TSL:
    """token list holder (duck-types the engine's TS)"""
    def __init__(self, t): self.t = t

PUNCT = set("~!@#$%^&*-=+|;:,<.>/?'")
def tokenize(s):
    toks, i = _tok(s, 0, None)
    return toks
def _tok(s, i, close):
    out = []; n = len(s)
    while i < n:
        c = s[i]
        if c.isspace(): i += 1; continue
        if close is not None and c == close: return out, i + 1
        if c in "([{":
            inner, j = _tok(s, i + 1, {"(": ")", "[": "]", "{": "}"}[c])
            out.append(("g", {"(": "Parenthesis", "[": "Bracket", "{": "Brace"}[c], TSL(inner))); i = j; continue
        if c in ")]}": raise ReaderError("unbalanced %r at %d" % (c, i))
        if c == '"':
            j = i + 1
            while j < n and s[j] != '"':
                j += 2 if s[j] == "\\" else 1
            out.append(("l", s[i:j+1])); i = j + 1; continue
        if c == "'" :
            # char literal 'x' / '\n' or lifetime 'a
            if i + 2 < n and ((s[i+1] != "\\" and s[i+2] == "'") ):
                out.append(("l", s[i:i+3])); i += 3; continue
            if i + 1 < n and s[i+1] == "\\":
                j = s.index("'", i + 2); out.append(("l", s[i:j+1])); i = j + 1; continue
            out.append(("p", "'", True)); i += 1; continue
        if c.isalpha() or c == "_":
            j = i
            while j < n and (s[j].isalnum() or s[j] == "_"): j += 1
            word = s[i:j]
            if word in ("b", "r", "br") and j < n and s[j] == '"':
                k = j + 1
                while k < n and s[k] != '"': k += 2 if s[k] == "\\" else 1
                out.append(("l", s[i:k+1])); i = k + 1; continue
            out.append(("i", word)); i = j; continue
        if c.isdigit():
            j = i
            while j < n and (s[j].isalnum() or s[j] in "_."): j += 1
            out.append(("l", s[i:j])); i = j; continue
        if c in PUNCT:
            joint = i + 1 < n and s[i+1] in PUNCT
            out.append(("p", c, joint)); i += 1; continue
        raise ReaderError("cannot tokenize %r at %d" % (c, i))
    if close is not None: raise ReaderError("missing %r" % close)
    return out, i

def tok_str(toks):
    """print a token list the way proc_macro2's fallback Display does"""
    out = []; joint = False
    for i, t in enumerate(toks):
        if i and not joint: out.append(" ")
        joint = False
        if t[0] in ("i", "l"): out.append(t[1] if isinstance(t[1], str) else "<sym>")
        elif t[0] == "p": out.append(t[1]); joint = t[2]
        elif t[0] == "g":
            o, c = {"Parenthesis": ("(", ")"), "Brace": ("{ ", "}"), "Bracket": ("[", "]"), "None": ("", "")}[t[1]]
            inner = tok_str(t[2].t)
            out.append(o + inner + (" " if t[1] == "Brace" and t[2].t else "") + c)
    return "".join(out)

class P:
    def __init__(self, toks): self.t = toks; self.i = 0
    def peek(self, k=0): return self.t[self.i+k] if self.i+k < len(self.t) else None
    def eat(self):
        if self.i >= len(self.t): raise ReaderError("unexpected end of tokens")
        self.i += 1; return self.t[self.i-1]
    def is_p(self, ch, k=0):
        x = self.peek(k); return x is not None and x[0] == "p" and x[1] == ch
    def is_i(self, name=None, k=0):
        x = self.peek(k); return x is not None and x[0] == "i" and (name is None or x[1] == name)
    def is_g(self, delim=None, k=0):
        x = self.peek(k); return x is not None and x[0] == "g" and (delim is None or x[1] == delim)
    def expect_p(self, ch):
        if not self.is_p(ch): raise ReaderError("expected %r, found %r" % (ch, self.peek()))
        self.eat()
    def expect_i(self, name=None):
        if not self.is_i(name): raise ReaderError("expected identifier %s, found %r" % (name or "", self.peek()))
        return self.eat()[1]
    def done(self): return self.i >= len(self.t)

KEYWORDS = set("as break const continue crate else enum extern false fn for if impl in let loop match mod move mut pub ref return self Self static struct super trait true type unsafe use where while async await dyn abstract become box do final macro override priv typeof unsized virtual yield try".split())

def parse_attrs(p):
    attrs = []
    while p.is_p("#"):
        p.eat()
        if not p.is_g("Bracket"): raise ReaderError("attribute without brackets")
        attrs.append(p.eat()[2].t)
    return attrs

def parse_type(p):
    """-> ("tuple", [ty]) | ("array", ty, len_literal) | ("path", leading_colons, [segments], [args]) | ("ref", tokens)"""
    x = p.peek()
    if x is None: raise ReaderError("type expected")
    if x[0] == "g" and x[1] == "Parenthesis":
        p.eat(); q = P(x[2].t); els = []; trailing = True
        while not q.done():
            els.append(parse_type(q)); trailing = False
            if not q.done(): q.expect_p(","); trailing = True
        if len(els) == 1 and not trailing: return ("paren", els[0])
        return ("tuple", els)
    if x[0] == "g" and x[1] == "Bracket":
        p.eat(); q = P(x[2].t); el = parse_type(q); q.expect_p(";"); ln = q.eat()
        if not q.done() or ln[0] != "l": raise ReaderError("array length")
        return ("array", el, ln[1])
    if x[0] == "p" and x[1] == "&":
        p.eat(); lt = None; mut = False
        if p.is_p("'"): p.eat(); lt = p.expect_i()
        if p.is_i("mut"): p.eat(); mut = True
        return ("ref", lt, mut, parse_type(p))
    segs = []; lead = False
    if p.is_p(":"): p.eat(); p.expect_p(":"); lead = True
    args = []
    while True:
        seg = p.expect_i()
        segs.append(seg)
        if p.is_p("<"):
            p.eat()
            while not p.is_p(">"):
                if p.is_p("'"): p.eat(); p.expect_i(); args.append(("lifetime",))
                else: args.append(parse_type(p))
                if p.is_p(","): p.eat()
                elif not p.is_p(">"): raise ReaderError("expected , or > in generic arguments, found %r" % (p.peek(),))
            p.eat()
            if p.is_p(":") and p.is_p(":", 1): raise ReaderError("path continues after generic arguments")
            if p.is_p("<"): raise ReaderError("second generic argument list")
            break
        if p.is_p(":") and p.is_p(":", 1): p.eat(); p.eat(); continue
        break
    return ("path", lead, segs, args)

def parse_fields(g):
    q = P(g[2].t); out = []
    named = g[1] == "Brace"
    while not q.done():
        attrs = parse_attrs(q)
        vis = False
        if q.is_i("pub"): q.eat(); vis = True
        name = None
        if named:
            name = q.expect_i()
            if isinstance(name, str) and name in KEYWORDS: raise ReaderError("keyword %s as field name" % name)
            q.expect_p(":")
        ty = parse_type(q)
        out.append({"name": name, "ty": ty, "attrs": attrs, "pub": vis})
        if not q.done(): q.expect_p(",")
    return out

def parse_generics(p):
    ps = []
    if p.is_p("<"):
        p.eat()
        while not p.is_p(">"):
            ps.append(p.expect_i())
            if p.is_p(","): p.eat()
            elif not p.is_p(">"): raise ReaderError("generics")
        p.eat()
    return ps

def parse_mod_body(p):
    mod = {"mods": {}, "items": {}, "uses": [], "order": []}
    while not p.done():
        attrs = parse_attrs(p)
        if p.is_i("pub"): p.eat()
        kw = p.expect_i()
        if kw == "use":
            path = []
            while not p.is_p(";"): path.append(p.eat())
            p.eat(); mod["uses"].append(path)
        elif kw == "mod":
            name = p.expect_i()
            if not p.is_g("Brace"): raise ReaderError("mod body")
            g = p.eat()
            if name in mod["mods"] or name in mod["items"]: raise ReaderError("duplicate name %s in module" % name)
            mod["mods"][name] = parse_mod_body(P(g[2].t)); mod["order"].append(("mod", name))
        elif kw == "struct":
            name = p.expect_i(); params = parse_generics(p)
            x = p.peek(); fields = []; form = "unit"
            if x is not None and x[0] == "g":
                p.eat(); fields = parse_fields(x); form = "named" if x[1] == "Brace" else "tuple"
                if x[1] == "Bracket": raise ReaderError("struct body in brackets")
            if form != "named": p.expect_p(";")
            elif p.is_p(";"): raise ReaderError("semicolon after braced struct")
            if name in mod["items"] or name in mod["mods"]: raise ReaderError("duplicate name %s in module" % name)
            mod["items"][name] = {"kind": "struct", "name": name, "params": params, "fields": fields, "form": form, "attrs": attrs}
            mod["order"].append(("item", name))
        elif kw == "enum":
            name = p.expect_i(); params = parse_generics(p)
            if not p.is_g("Brace"): raise ReaderError("enum body")
            g = p.eat(); q = P(g[2].t); variants = []
            while not q.done():
                vattrs = parse_attrs(q); vname = q.expect_i(); x = q.peek(); fields = []; form = "unit"
                if x is not None and x[0] == "g": q.eat(); fields = parse_fields(x); form = "named" if x[1] == "Brace" else "tuple"
                variants.append({"name": vname, "attrs": vattrs, "fields": fields, "form": form})
                if not q.done(): q.expect_p(",")
            if name in mod["items"] or name in mod["mods"]: raise ReaderError("duplicate name %s in module" % name)
            mod["items"][name] = {"kind": "enum", "name": name, "params": params, "variants": variants, "attrs": attrs}
            mod["order"].append(("item", name))
        else: raise ReaderError("unexpected item keyword %r" % (kw,))
    return mod

def parse_root(toks):
    """the whole output: `pub mod <root> { ... }` -> (root name, module)"""
    top = parse_mod_body(P(toks))
    if len(top["mods"]) != 1 or top["items"]: raise ReaderError("expected exactly one root module")
    name = next(iter(top["mods"]))
    return name, top["mods"][name]

def attr_named(attrs, name):
    """attribute token lists whose first token is identifier `name`"""
    return [a for a in attrs if a and a[0] == ("i", name)]
def codec_attr(attrs, key):
    for a in attr_named(attrs, "codec"):
        if len(a) > 1 and a[1][0] == "g":
            inner = a[1][2].t
            if inner and inner[0] == ("i", key): return inner
    return None
def derive_list(attrs):
    """list of derive paths (each printed as string) over all #[derive(..)] attributes, in order"""
    out = []
    for a in attr_named(attrs, "derive"):
        inner = a[1][2].t; cur = []
        for t in inner + [("p", ",", False)]:
            if t[0] == "p" and t[1] == ",":
                if cur: out.append(tok_str(cur)); cur = []
            else: cur.append(t)
    return out
def doc_lines(attrs):
    out = []
    for a in attr_named(attrs, "doc"):
        if len(a) == 3 and a[1][0] == "p" and a[1][1] == "=": out.append(a[2][1])
        else: out.append(tok_str(a))
    return out

def walk_items(mod, prefix=()):
    for n, it in mod["items"].items(): yield prefix + (n,), it
    for n, m in mod["mods"].items(): yield from walk_items(m, prefix + (n,))
def walk_mods(mod, prefix=()):
    yield prefix, mod
    for n, m in mod["mods"].items(): yield from walk_mods(m, prefix + (n,))
def types_in_item(it):
    if it["kind"] == "struct":
        for f in it["fields"]: yield f["ty"]
    else:
        for v in it["variants"]:
            for f in v["fields"]: yield f["ty"]
def walk_type(ty):
    yield ty
    if ty[0] == "tuple":
        for t in ty[1]: yield from walk_type(t)
    elif ty[0] in ("array", "paren"): yield from walk_type(ty[1])
    elif ty[0] == "ref": yield from walk_type(ty[3])
    elif ty[0] == "path":
        for a in ty[3]:
            if a[0] != "lifetime": yield from walk_type(a)
