#!/usr/bin/env python3
"""seeded_run.py [-j N] [--tier quick] <mutant-glob-or-name>:<CHECK>[,<CHECK>...] ...
Runs registered checks against seeded changes in scratch worktrees of /repo (never in /repo itself) and records
the outcome in seeded/<name>/meta.json (checks_run). Example: tools/seeded_run.py -j 3 'C15-*:C15' C01-m2:C01,C03"""
import sys, os, json, subprocess, glob, fnmatch, threading, queue, time
V = "/verif"; SCR = "/tmp/mutrun"
def sh(cmd, **kw): return subprocess.run(cmd, shell=True, stdout=subprocess.PIPE, stderr=subprocess.STDOUT, text=True, **kw)
def main():
    args = sys.argv[1:]; j = 3; tier = "quick"
    while args and args[0].startswith("-"):
        if args[0] == "-j": j = int(args[1]); args = args[2:]
        elif args[0] == "--tier": tier = args[1]; args = args[2:]
    jobs = []
    names = sorted(os.listdir(os.path.join(V, "seeded")))
    for a in args:
        pat, _, checks = a.partition(":")
        for n in names:
            if fnmatch.fnmatch(n, pat):
                for c in checks.split(","): jobs.append((n, c))
    q = queue.Queue()
    for x in jobs: q.put(x)
    os.makedirs(SCR, exist_ok=True)
    lock = threading.Lock()
    def worker(k):
        wt = os.path.join(SCR, "w%d" % k)
        if not os.path.isdir(wt): sh("git -C /repo worktree add --detach %s HEAD" % wt)
        while True:
            try: n, c = q.get_nowait()
            except queue.Empty: break
            d = os.path.join(V, "seeded", n)
            sh("git -C %s checkout -q --detach %s && git -C %s checkout -q -- . && git -C %s clean -qfd" % (wt, head, wt, wt))
            r = sh("git -C %s apply %s/patch.diff" % (wt, d))
            if r.returncode != 0: r = sh("cd %s && patch -p1 -F3 --no-backup-if-mismatch < %s/patch.diff" % (wt, d))
            res = {"tier": tier, "repo_head": head, "at": time.strftime("%Y-%m-%d %H:%M")}
            if r.returncode != 0:
                res.update(applies=False, note="patch does not apply on /repo HEAD (a fix: commit rewrote the mutated lines): " + r.stdout.strip()[:200])
            else:
                env = dict(os.environ, VERIF_REPO=wt, VERIF_EVIDENCE_DIR=os.path.join(SCR, "ev%d" % k), VERIF_CEX_DIR=os.path.join(SCR, "cex%d" % k))
                t0 = time.time()
                import signal
                pr = subprocess.Popen(["./check", c, "--tier", tier], cwd=V, env=env, stdout=subprocess.PIPE, stderr=subprocess.STDOUT, text=True, start_new_session=True)
                try: so, _ = pr.communicate(timeout=int(os.environ.get("SEEDED_TIMEOUT", "900")))
                except subprocess.TimeoutExpired:
                    os.killpg(pr.pid, signal.SIGKILL); so, _ = pr.communicate(); so = (so or "") + "\nINCONCLUSIVE: check timed out"
                class _P: pass
                p = _P(); p.stdout = so; p.returncode = pr.returncode if pr.returncode is not None and pr.returncode >= 0 else 2
                lines = [l for l in p.stdout.split("\n") if l.startswith(("VIOLATION", "INCONCLUSIVE", "KNOWN-FINDING", "  "))]
                res.update(applies=True, exit=p.returncode, wall_s=round(time.time() - t0), verdict={0: "missed (check passed)", 1: "caught (VIOLATION)", 2: "inconclusive (exit 2)"}.get(p.returncode, "?"),
                           output="\n".join(lines[:4])[:900])
            with lock:
                meta = json.load(open(os.path.join(d, "meta.json")))
                meta.setdefault("checks_run", {})[c] = res
                json.dump(meta, open(os.path.join(d, "meta.json"), "w"), indent=1)
                print("%-12s %-4s %s" % (n, c, res.get("verdict") or res.get("note")), flush=True)
            sh("git -C %s checkout -q -- . && git -C %s clean -qfd" % (wt, wt))
    head = sh("git -C /repo rev-parse --short HEAD").stdout.strip()
    ts = [threading.Thread(target=worker, args=(k,)) for k in range(j)]
    for t in ts: t.start()
    for t in ts: t.join()
    if "--keep" not in sys.argv:
        for k in range(j):
            sh("git -C /repo worktree remove --force %s" % os.path.join(SCR, "w%d" % k))
        sh("git -C /repo worktree prune")
if __name__ == "__main__": main()
