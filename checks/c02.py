"""C02: the generated module is closed, well-formed Rust (structural clauses)."""
import os, sys
sys.path.insert(0, os.path.dirname(os.path.abspath(__file__)))
from gen_common import *
from oracles.module import check_module
import c01

ID = "C02"
CRATES = ("typegen",)
FUNCTIONS = c01.FUNCTIONS + ["utils::ensure_unique_type_paths"]
MODELS = c01.MODELS
ASSUMPTIONS = ["well-formed registries derived by scale-info from replay/src/corpus.rs (coincidence-freeness NOT assumed), with fields retargeted to every other entry that keeps by-value acyclicity, boxed/sequence self references added, array lengths and variant indices symbolic",
               "root module name is not a path segment of the registry", "'compiles under rustc' is represented by the structural clauses whose violation produces E0392/E0072/E0412/E0107/E0428 and the CompactAs single-field precondition; rustc itself is not run"]
BOUNDS = {"quick": {"corpus registries": "all", "settings variants": 3, "retargets": "each field of each item, <= 5 targets"}, "thorough": {"corpus registries": "all", "settings variants": 5, "retargets": "each field, all targets"}}
OUTSIDE = ["rustc is not run", "registries outside the corpus-derived families"]
GLOBAL_WITNESSES = ("Ok",)
SKIP = set()

SETS = [STD + Settings(["compact_as_path ::parity_scale_codec::CompactAs", "derive_all ::parity_scale_codec::Encode"]),
        Settings(["mod_name root_mod", "compact_path ::c::Compact", "bits_path ::b::DecodedBits", "alloc ::alloc", "docs 0", "compact_as_path ::c::CompactAs"]),
        Settings(["compact_path codec::Compact", "bits_path bits::DecodedBits", "codec_attrs", "derive_all Debug"]),
        Settings(["mod_name t", "compact_path ::c::Compact", "bits_path ::b::DecodedBits", "codec_attrs", "compact_as_path ::c::CompactAs", "attrtok_all allow(dead_code)"]),
        STD]

def structural(eng, settings, out):
    probs = []
    try:
        name, module = parse_root(out["tokens"])
    except ReaderError as e:
        return ["emitted tokens do not parse as a module tree: %s" % e]
    if name != settings.root(): probs.append("root module is called %s, expected %s" % (name, settings.root()))
    return probs + check_module(name, module, settings.alloc_root(), settings.get("compact_path"), settings.get("bits_path"))

def structural_concrete(settings, real):
    if real.get("result") != "Ok": return []
    try: name, module = parse_root(tokenize(real["tokens"]))
    except ReaderError as e: return ["emitted tokens do not parse as a module tree: %s" % e]
    probs = [] if name == settings.root() else ["root module is called %s" % name]
    return probs + check_module(name, module, settings.alloc_root(), settings.get("compact_path"), settings.get("bits_path"))

def make_family(name, reg0, settings, mutate=None, dedup=False, symbolic=True):
    def mk(eng):
        reg = symbolize_leaves(eng, reg0) if symbolic else regdsl._clone(reg0)
        if mutate: mutate(eng, reg)
        return reg
    def run(eng, reg_in):
        out, regv, s = generate(eng, reg_in, settings, dedup=dedup)
        res = {"violations": []}
        m = eng.model(); creg = concretize(reg_in, m)
        case = replay_gen_case(creg, settings, dedup=dedup)
        if out["result"] == "Err":
            res["outcome"] = "Err:" + out["err"][0]
            res["validate"] = dict(case, expect={"result": "Err", "err_variant": out["err"][0]}); return res
        res["outcome"] = "Ok"
        for p in structural(eng, settings, out):
            res["violations"].append({"what": p + " | registry: " + "; ".join(describe(creg, 10)), "case": case})
        res["validate"] = dict(case, expect={"result": "Ok", "tokens": plain_tok_str(concretize_tokens(out["tokens"], m))})
        res["sample"] = {"registry": describe(creg, 6), "settings": settings.d}
        return res
    return Family(name, mk, run, target_prefixes=1)

def retarget_sites(reg):
    for ti in user_ids(reg):
        t = reg[ti]
        sites = [(None, fi, f) for fi, f in enumerate(t["def"][1])] if t["def"][0] == "composite" else [(vi, fi, f) for vi, v in enumerate(t["def"][1]) for fi, f in enumerate(v["fields"])]
        for vi, fi, f in sites: yield ti, vi, fi, f

def families(eng, tier, seed):
    fams = []; C = corpus(); sets = SETS if tier == "thorough" else SETS[:3]
    for name, reg in C.items():
        if name in SKIP: continue
        multi = len({tuple(t["path"]) for t in reg if t["path"]}) < sum(1 for t in reg if t["path"])
        for si, sv in enumerate(sets):
            fams.append(make_family("corpus-%s-s%d" % (name, si), reg, sv))
            if multi: fams.append(make_family("corpus-%s-s%d-dedup" % (name, si), reg, sv, dedup=True))
    rnd = random.Random(seed)
    for name, reg in C.items():
        if name in SKIP: continue
        for ti, vi, fi, f in retarget_sites(reg):
            if sum(1 for u in reg if u["path"] == reg[ti]["path"]) > 1: continue     # diverging definitions under one path: C03
            tg = [j for j in range(len(reg)) if j != f["ty"] and ti not in c01.by_value_reach(reg, j) and reg[j]["path"] not in (["Cow"], ["PhantomData"], ["Duration"])
                  and not (reg[j]["path"] and reg[j]["path"][-1] in ("Lsb0", "Msb0")) and reg[j]["def"] not in (("primitive", "U256"), ("primitive", "I256"))]
            if tier == "quick": rnd.shuffle(tg); tg = sorted(tg[:4])
            def mut(eng, r, ti=ti, vi=vi, fi=fi, tg=tg, reg0=reg):
                t = r[ti]; fl = t["def"][1][fi] if t["def"][0] == "composite" else t["def"][1][vi]["fields"][fi]
                kind = eng.choose([(("to", j), True) for j in tg] + [(("boxself", 0), True), (("vecself", 0), True)])
                if kind[0] == "to": fl["ty"] = kind[1]; fl["type_name"] = c01.src_name(reg0, kind[1])
                elif kind[0] == "boxself": fl["ty"] = ti; fl["type_name"] = "Box<Self>"
                else: r.append(seq(ti)); fl["ty"] = len(r) - 1; fl["type_name"] = "Vec<Self>"
            multi = len({tuple(t["path"]) for t in reg if t["path"]}) < sum(1 for t in reg if t["path"])
            fams.append(make_family("retarget-%s-%d.%s.%d" % (name, ti, vi, fi), reg, sets[(ti + fi) % len(sets)], mutate=mut, dedup=multi, symbolic=False))
    # same-path families after de-duplication (C02's quantifier): every path must still resolve with the right arity
    import c03
    for vn, segs in (("versions", ("v1", "v2")), ("versions_hdr", ("h1", "h2")), ("versions_hdr_mirror", ("h1", "h2"))):
        fams.append(make_family("samepath-%s-dedup" % vn, strip_segment(C[vn], segs), sets[0], dedup=True, symbolic=False))
    for ename, efn in c03.edits():
        for order in (0, 1):
            r = c03.edit_family(ename, efn, order)(None)
            fams.append(make_family("samepath-%s-o%d-dedup" % (ename, order), r, sets[0], dedup=True, symbolic=False))
    return fams

def confirm(v, real):
    if "panic" in real: return True
    return bool(structural_concrete(Settings(v["case"]["set"]), real))
def classify(v):
    w = v["what"]
    for k in ("does not parse", "lacks `use", "does not resolve", "generic arguments but declares", "is used by no field", "CompactAs", "cycle without heap", "duplicate"):
        if k in w: return k
    return "other"

if __name__ == "__main__":
    main(sys.modules[__name__])
