"""C03: no silent conflation - differently shaped types never share an item."""
import os, sys
sys.path.insert(0, os.path.dirname(os.path.abspath(__file__)))
from gen_common import *
import c01

ID = "C03"
CRATES = ("typegen",)
FUNCTIONS = ["utils::{types_equal, types_equal_inner (+5 closures), ensure_unique_type_paths, sanity_pass}", "utils::generics_list::GenericsList::{empty, extend, index_for_type_id, index_for_type_name}",
             "TypeGenerator::generate_types_mod (keep-first-or-error)"] + c01.FUNCTIONS
MODELS = c01.MODELS + ["Rc", "HashSet<u32>", "HashMap<&[String], Vec<Vec<u32>>> (iteration order: insertion and reversed)"]
ASSUMPTIONS = ["same-path families: corpus registries with the version segment stripped (two versions of one crate), associated-type families, and template families where member B is member A plus one shape edit or an arbitrary choice of field targets from a palette",
               "a family member is 'wire-faithfully represented' iff the C01 oracle holds for its id against the emitted module", "both registry orders of the two members are explored"]
BOUNDS = {"quick": {"members per family": 2, "fields per member": "<= 3", "palette": "9 entries incl. two nested same-path pairs", "edits": "all single shape edits", "free field targets": "2 per member (palette^4) + 3-field cross family"},
          "thorough": {"members per family": "2-3", "fields per member": "<= 3", "palette": "11 entries", "edits": "all single shape edits, pairs of edits", "free field targets": "3 per member"}}
OUTSIDE = ["families with more than 3 members or 3 fields", "nothing is sampled beyond the bound"]
GLOBAL_WITNESSES = ("Ok", "Err:DuplicateTypePath", "dedup-Ok")

STDS = Settings(["compact_path ::parity_scale_codec::Compact", "bits_path ::scale_bits::DecodedBits", "codec_attrs"])

def run_family(name, mk, tier):
    """oracle: without dedup -> Err(DuplicateTypePath) or every id faithful; with dedup -> if Ok every id faithful"""
    def run(eng, reg_in):
        res = {"violations": [], "outcome": []}
        ids = list(range(len(reg_in)))
        m0 = eng.model()
        for dedup in (False, True):
            out, regv, s = generate(eng, regdsl._clone(reg_in), STDS, resolve=ids, dedup=dedup)
            reg = with_paths(reg_in, out["paths"]) if "paths" in out else reg_in
            case = replay_gen_case(concretize(reg_in, m0), STDS, resolve=ids, dedup=dedup)
            tag = "dedup-" if dedup else ""
            if dedup and "paths" in out:
                # the utility must not leave two differently shaped types under one path (judged by the independent shape-group oracle of C04)
                import c04
                creg0 = concretize(reg_in, m0); groups = c04.expected_groups(creg0); gid = {}
                for p, gs in groups.items():
                    for k, g in enumerate(gs):
                        for i in g: gid[i] = (p, k)
                under = {}
                for i, p in enumerate(out["paths"]):
                    if i in gid: under.setdefault(tuple(p), set()).add(gid[i])
                for p, gset in under.items():
                    if len(gset) > 1:
                        # a renamed member (old name + k) that lands on a name the registry already contained: the recorded C04 finding
                        landed = {tuple(creg0[i]["path"]) for i, q in enumerate(out["paths"]) if tuple(q) == p}
                        res["violations"].append({"digit_collision": (p in landed and len(landed) > 1), "what": "de-duplication leaves differently shaped types under the path %s (shape groups %s) | %s" % ("::".join(p), sorted(gset), "; ".join(describe(creg0, 14))),
                                                  "case": {"op": "dedup", "reg": regdsl.encode(creg0).hex()}, "ids": ids, "kind": "dedup-leaves-shapes"})
            if out["result"] == "Err":
                res["outcome"].append(tag + "Err:" + out["err"][0])
                if out["err"][0] != "DuplicateTypePath":
                    res["violations"].append({"what": "%sgeneration failed with %s on a well-formed same-path family | %s" % (tag, out["err"][0], "; ".join(describe(concretize(reg_in, m0), 14))), "case": case, "ids": ids, "kind": "other-error"})
                if not dedup: res["validate"] = dict(case, expect={"result": "Err", "err_variant": out["err"][0]})
                continue
            res["outcome"].append(tag + "Ok")
            for i, msg, mdl in faithful_check(eng, reg, STDS, out, ids):
                mm = mdl if mdl is not None else m0
                res["violations"].append({"what": "%s%s | %s" % (tag, msg, "; ".join(describe(concretize(reg, mm), 14))),
                                          "case": replay_gen_case(concretize(reg_in, mm), STDS, resolve=ids, dedup=dedup), "ids": ids, "kind": "conflation"})
            if not dedup or "validate" not in res:
                exp = {"result": "Ok", "tokens": plain_tok_str(concretize_tokens(out["tokens"], m0))}
                res["validate"] = dict(case, expect=exp)
        if hash(tuple(eng.decisions)) % 7 == 0: res["sample"] = describe(concretize(reg_in, m0), 10)
        return res
    return Family(name, mk, run, target_prefixes=None)

# ---------------------------------------------------------------------------------------------- templates
def palette():
    """0 u8, 1 u32, 2 Vec<u8>, 3 (u8,u32), 4 and 5: m::W{v:u8} twice (an unchanged type of a crate linked in two versions),
    6 and 7: m::V{v:u32} twice, 8 [u8;4]"""
    return [prim("U8"), prim("U32"), seq(0), tup([0, 1]),
            comp(["m", "W"], [fld("v", 0, "u8")]), comp(["m", "W"], [fld("v", 0, "u8")]),
            comp(["m", "V"], [fld("v", 1, "u32")]), comp(["m", "V"], [fld("v", 1, "u32")]), arr(4, 0)]
PAL_NAMES = ["u8", "u32", "Vec<u8>", "(u8, u32)", "W", "W", "V", "V", "[u8; 4]"]

def two_member_family(nfields, targets, order):
    def mk(eng):
        reg = palette(); n = len(reg)
        def member(tag):
            fs = []
            for k in range(nfields):
                j = eng.choose([(x, True) for x in targets])
                fs.append(fld("abc"[k], j, PAL_NAMES[j]))
            return comp(["m", "X"], fs)
        a = member("a"); b = member("b")
        reg += [a, b] if order == 0 else [b, a]
        reg.append(comp(["m", "H"], [fld("x", n, "X"), fld("y", n + 1, "X")]))
        return reg
    return mk

def base_subject():
    """registry with one subject type m::S using many TypeDef arms, referenced from a holder; returns (reg, subject id)"""
    reg = [prim("U8"), prim("U32"), prim("U64"), seq(0), arr(4, 0), tup([0, 1]), tup([]), cpt(1),
           comp(["m", "W"], [fld("v", 0, "u8")]),
           enum(["m", "E"], [var("A", [], 0), var("B", [fld(None, 0, "u8")], 1)]),
           enum(["Option"], [var("None", [], 0), var("Some", [fld(None, 0, "T")], 1)], params=[("T", 0)]),
           comp(["bitvec", "order", "Lsb0"], []), comp(["bitvec", "order", "Msb0"], []), bits(0, 11)]
    subj = comp(["m", "S"], [fld("p", 0, "u8"), fld("q", 3, "Vec<u8>"), fld("r", 4, "[u8; 4]"), fld("s", 5, "(u8, u32)"), fld("t", 7, "Compact<u32>"),
                              fld("u", 8, "W"), fld("w", 9, "E"), fld("o", 10, "Option<u8>"), fld("bv", 13, "BitVec<u8, Lsb0>"), fld("e", 6, "()")])
    reg.append(subj)
    return reg, len(reg) - 1

def edits():
    """(name, fn(reg, copy_id) -> None) single shape edits applied to the second member"""
    E = []
    def add(reg, t): reg.append(t); return len(reg) - 1
    def fset(i, **kw):
        def f(reg, c):
            reg[c]["def"][1][i].update({k: (v(reg) if callable(v) else v) for k, v in kw.items()})
        return f
    E.append(("field-renamed", fset(0, name="pp")))
    E.append(("field-prim-kind", fset(0, ty=1, type_name="u32")))
    E.append(("field-dropped", lambda reg, c: reg[c]["def"][1].pop()))
    E.append(("field-added", lambda reg, c: reg[c]["def"][1].append(fld("extra", 0, "u8"))))
    E.append(("fields-swapped", lambda reg, c: reg[c]["def"][1].__setitem__(slice(0, 2), [reg[c]["def"][1][1], reg[c]["def"][1][0]])))
    E.append(("vec-elem", fset(1, ty=lambda reg: add(reg, seq(1)), type_name="Vec<u32>")))
    E.append(("vec-vs-array", fset(1, ty=4, type_name="[u8; 4]")))
    E.append(("array-len", fset(2, ty=lambda reg: add(reg, arr(5, 0)), type_name="[u8; 5]")))
    E.append(("array-elem", fset(2, ty=lambda reg: add(reg, arr(4, 1)), type_name="[u32; 4]")))
    E.append(("tuple-prefix-shorter", fset(3, ty=lambda reg: add(reg, tup([0])), type_name="(u8,)")))
    E.append(("tuple-prefix-longer", fset(3, ty=lambda reg: add(reg, tup([0, 1, 0])), type_name="(u8, u32, u8)")))
    E.append(("tuple-elem", fset(3, ty=lambda reg: add(reg, tup([0, 2])), type_name="(u8, u64)")))
    E.append(("unit-vs-tuple", fset(9, ty=5, type_name="(u8, u32)")))
    E.append(("tuple-vs-unit", fset(3, ty=6, type_name="()")))
    E.append(("compact-inner", fset(4, ty=lambda reg: add(reg, cpt(2)), type_name="Compact<u64>")))
    E.append(("compact-vs-plain", fset(4, ty=1, type_name="u32")))
    E.append(("nested-struct-shape", fset(5, ty=lambda reg: add(reg, comp(["m", "W"], [fld("v", 1, "u32")])), type_name="W")))
    E.append(("nested-struct-other-path", fset(5, ty=lambda reg: add(reg, comp(["m", "W2"], [fld("v", 0, "u8")])), type_name="W2")))
    E.append(("enum-variant-name", fset(6, ty=lambda reg: add(reg, enum(["m", "E"], [var("A", [], 0), var("C", [fld(None, 0, "u8")], 1)])), type_name="E")))
    E.append(("enum-variant-index", fset(6, ty=lambda reg: add(reg, enum(["m", "E"], [var("A", [], 0), var("B", [fld(None, 0, "u8")], 5)])), type_name="E")))
    E.append(("enum-variant-order", fset(6, ty=lambda reg: add(reg, enum(["m", "E"], [var("B", [fld(None, 0, "u8")], 1), var("A", [], 0)])), type_name="E")))
    E.append(("enum-variant-added", fset(6, ty=lambda reg: add(reg, enum(["m", "E"], [var("A", [], 0), var("B", [fld(None, 0, "u8")], 1), var("C", [], 2)])), type_name="E")))
    E.append(("enum-variant-added-generic", fset(6, ty=lambda reg: add(reg, enum(["m", "E"], [var("A", [], 0), var("B", [fld(None, 0, "u8")], 1), var("C", [fld(None, 1, "U")], 2)], params=[("U", 1)])), type_name="E<u32>")))
    E.append(("struct-field-added-generic", fset(5, ty=lambda reg: add(reg, comp(["m", "W"], [fld("v", 0, "u8"), fld("w", 1, "U")], params=[("U", 1)])), type_name="W<u32>")))
    E.append(("enum-field-named", fset(6, ty=lambda reg: add(reg, enum(["m", "E"], [var("A", [], 0), var("B", [fld("x", 0, "u8")], 1)])), type_name="E")))
    E.append(("enum-vs-struct", fset(6, ty=lambda reg: add(reg, comp(["m", "E"], [fld(None, 0, "u8")])), type_name="E")))
    E.append(("option-arg", fset(7, ty=lambda reg: add(reg, enum(["Option"], [var("None", [], 0), var("Some", [fld(None, 1, "T")], 1)], params=[("T", 1)])), type_name="Option<u32>")))
    E.append(("bits-store", fset(8, ty=lambda reg: add(reg, bits(1, 11)), type_name="BitVec<u32, Lsb0>")))
    E.append(("bits-order", fset(8, ty=lambda reg: add(reg, bits(0, 12)), type_name="BitVec<u8, Msb0>")))
    E.append(("named-vs-unnamed", lambda reg, c: [f.update(name=None) for f in reg[c]["def"][1]]))
    def to_enum(reg, c): reg[c]["def"] = ("variant", [var("Only", reg[c]["def"][1], 0)])
    E.append(("struct-vs-enum", to_enum))
    E.append(("boxed-self-vs-plain", fset(1, ty=lambda reg: add(reg, seq(len(reg) - 1 if False else 0)), type_name="Vec<u8>")))
    return E

def edit_family(ename, efn, order):
    def mk(eng):
        reg, s = base_subject()
        reg.append(regdsl._clone(reg[s])); c = len(reg) - 1
        efn(reg, c)
        ids = [s, c]
        reg.append(comp(["m", "H"], [fld("x", s, "S"), fld("y", c, "S")]))
        if order == 1:
            perm = list(range(len(reg))); perm[s], perm[c] = perm[c], perm[s]
            reg = permute(reg, perm)
        return reg
    return mk

def recursive_families():
    """one member refers back to itself / an already visited id where the other does not"""
    fams = []
    def node_pair(order, kind):
        def mk(eng):
            reg = [prim("U8"), prim("U32")]
            # 2: Vec<Node_a>, 3: Node_a{value, children: Vec<Node_a>}; 4: Vec<u32> or Vec<Leaf>; 5: Node_b
            reg.append(seq(3)); reg.append(comp(["m", "Node"], [fld("value", 1, "u32"), fld("children", 2, "Vec<Node>")]))
            if kind == "prim": reg.append(seq(1)); reg.append(comp(["m", "Node"], [fld("value", 1, "u32"), fld("children", 4, "Vec<u32>")]))
            elif kind == "leaf":
                reg.append(seq(6)); reg.append(comp(["m", "Node"], [fld("value", 1, "u32"), fld("children", 4, "Vec<Leaf>")])); reg.append(comp(["m", "Leaf"], [fld("v", 0, "u8")]))
            else:   # both recursive, different payload
                reg.append(seq(5)); reg.append(comp(["m", "Node"], [fld("value", 0, "u8"), fld("children", 4, "Vec<Node>")]))
            reg.append(comp(["m", "H"], [fld("x", 3, "Node"), fld("y", 5, "Node")]))
            if order == 1:
                perm = list(range(len(reg))); perm[3], perm[5] = perm[5], perm[3]; perm[2], perm[4] = perm[4], perm[2]
                reg = permute(reg, perm)
            return reg
        return mk
    for order in (0, 1):
        for kind in ("prim", "leaf", "both"): fams.append(("rec-node-%s-o%d" % (kind, order), node_pair(order, kind)))
    return fams

def release_families():
    """three releases of a crate c (all define c::Foo) over two releases of a crate d (both define d::Bar): the third member
    differs from the first two through the same nested same-path pair; every order of the three members"""
    import itertools
    fams = []
    for perm in itertools.permutations(range(3)):
        def mk(eng, perm=perm):
            reg = [prim("U8"), prim("U16"), comp(["d", "Bar"], [fld("x", 0, "u8")]), comp(["d", "Bar"], [fld("x", 0, "u8"), fld("y", 0, "u8")])]
            members = [comp(["c", "Foo"], [fld("q", 3, "Bar"), fld("p", 1, "u16")]), comp(["c", "Foo"], [fld("q", 3, "Bar"), fld("p", 0, "u8")]), comp(["c", "Foo"], [fld("q", 2, "Bar"), fld("p", 0, "u8")])]
            for k in perm: reg.append(members[k])
            reg.append(comp(["c", "H"], [fld("a", 4, "Foo"), fld("b", 5, "Foo"), fld("c", 6, "Foo")]))
            return reg
        fams.append(("three-releases-%s" % "".join(map(str, perm)), mk))
    return fams

def generic_families():
    """same-path generic definitions: instantiations of one definition (must merge faithfully) and two definitions"""
    fams = []
    def mk_inst(eng):
        # G<T>{a:T, b:Vec<T>} at u8 and u32 : one definition, must be Ok and faithful
        return [prim("U8"), prim("U32"), seq(0), seq(1),
                comp(["m", "G"], [fld("a", 0, "T"), fld("b", 2, "Vec<T>")], params=[("T", 0)]),
                comp(["m", "G"], [fld("a", 1, "T"), fld("b", 3, "Vec<T>")], params=[("T", 1)]),
                comp(["m", "H"], [fld("x", 4, "G<u8>"), fld("y", 5, "G<u32>")])]
    fams.append(("generic-instantiations", mk_inst))
    def mk_swapped(order):
        def mk(eng):
            # v1 Pair<K,V>{keys:Vec<K>, values:Vec<V>} ; v2 Pair<V,K>{keys:Vec<K>, values:Vec<V>} both at <u8,u32>
            reg = [prim("U8"), prim("U32"), seq(0), seq(1),
                   comp(["m", "Pair"], [fld("keys", 2, "Vec<K>"), fld("values", 3, "Vec<V>")], params=[("K", 0), ("V", 1)]),
                   comp(["m", "Pair"], [fld("keys", 3, "Vec<K>"), fld("values", 2, "Vec<V>")], params=[("V", 0), ("K", 1)]),
                   comp(["m", "H"], [fld("x", 4, "Pair<u8, u32>"), fld("y", 5, "Pair<u8, u32>")])]
            if order: reg = permute(reg, [0, 1, 2, 3, 5, 4, 6])
            return reg
        return mk
    fams.append(("generic-param-order-swapped-o0", mk_swapped(0))); fams.append(("generic-param-order-swapped-o1", mk_swapped(1)))
    def mk_direct_vs_fixed(order):
        def mk(eng):
            # def1 G<T>{a:T}; def2 G<T>{a:u8} instantiated at u8 (coincidence) and def1 at u32
            reg = [prim("U8"), prim("U32"),
                   comp(["m", "G"], [fld("a", 1, "T")], params=[("T", 1)]),
                   comp(["m", "G"], [fld("a", 0, "u8")], params=[("T", 1)]),
                   comp(["m", "H"], [fld("x", 2, "G<u32>"), fld("y", 3, "G<u32>")])]
            if order: reg = permute(reg, [0, 1, 3, 2, 4])
            return reg
        return mk
    fams.append(("generic-param-vs-fixed-o0", mk_direct_vs_fixed(0))); fams.append(("generic-param-vs-fixed-o1", mk_direct_vs_fixed(1)))
    def mk_skip(order):
        def mk(eng):
            # Config-trait style: Hdr<T skipped>{h:[u8;32]} vs {h:[u8;64]} and a third equal to the first
            reg = [prim("U8"), arr(32, 0), arr(64, 0),
                   comp(["m", "Hdr"], [fld("h", 1, "T::H")], params=[("T", None)]),
                   comp(["m", "Hdr"], [fld("h", 2, "T::H")], params=[("T", None)]),
                   comp(["m", "C1"], []), comp(["m", "C2"], []),
                   comp(["m", "HdrNS"], [fld("h", 1, "T::H")], params=[("T", 5)]),
                   comp(["m", "HdrNS"], [fld("h", 2, "T::H")], params=[("T", 6)]),
                   comp(["m", "H"], [fld("a", 3, "Hdr<C1>"), fld("b", 4, "Hdr<C2>"), fld("c", 7, "HdrNS<C1>"), fld("d", 8, "HdrNS<C2>")])]
            if order: reg = permute(reg, [0, 1, 2, 4, 3, 5, 6, 8, 7, 9])
            return reg
        return mk
    def mk_repeated(order):
        def mk(eng):
            # Foo<T,U,V>{t:T, x:Vec<one of U,V>} twice under one path, with argument lists that repeat a type on one or both
            # sides: the id -> parameter-index and name -> parameter-index tables of GenericsList must stay aligned
            reg = [prim("U8"), prim("U16"), prim("U32"), seq(0), seq(1), seq(2)]
            names = ("T", "U", "V")
            for side, argsets in ((0, [(0, 0, 1), (0, 1, 1), (0, 1, 2)]), (1, [(0, 2, 1), (0, 0, 1), (1, 1, 0)])):
                args = eng.choose([(a, True) for a in argsets]); k = eng.choose([(1, True), (2, True)])
                reg.append(comp(["m", "Foo"], [fld("t", args[0], "T"), fld("x", 3 + args[k], "Vec<%s>" % names[k])], params=list(zip(names, args))))
            reg.append(comp(["m", "H"], [fld("a", 6, "Foo"), fld("b", 7, "Foo")]))
            if order: reg = permute(reg, [0, 1, 2, 3, 4, 5, 7, 6, 8])
            return reg
        return mk
    fams.append(("generic-repeated-arguments-o0", mk_repeated(0))); fams.append(("generic-repeated-arguments-o1", mk_repeated(1)))
    fams.append(("assoc-type-skip-noskip-o0", mk_skip(0))); fams.append(("assoc-type-skip-noskip-o1", mk_skip(1)))
    return fams

def families(eng, tier, seed):
    fams = []; C = corpus()
    fams.append(run_family("corpus-versions-stripped", lambda eng: symbolize_leaves(eng, strip_segment(C["versions"], ("v1", "v2")), tie_paths=False), tier))
    fams.append(run_family("corpus-versions-stripped-reversed", lambda eng: permute(strip_segment(C["versions"], ("v1", "v2")), list(reversed(range(len(C["versions"]))))), tier))
    # two versions whose fields use the two parameters the other way round (parameter names: one a prefix of the other)
    for vn in ("versions_hdr", "versions_hdr_mirror"):
        VH = strip_segment(C[vn], ("h1", "h2"))
        fams.append(run_family("corpus-%s-stripped" % vn, (lambda VH: lambda eng: symbolize_leaves(eng, VH, tie_paths=False))(VH), tier))
        fams.append(run_family("corpus-%s-stripped-reversed" % vn, (lambda VH: lambda eng: permute(VH, list(reversed(range(len(VH))))))(VH), tier))
    for n in ("assoc_skip", "assoc_noskip", "assoc_same", "generics", "tree", "bits_generic", "compact_generic", "phantom", "modules", "skipnest", "swapper"):
        fams.append(run_family("corpus-" + n, (lambda n: lambda eng: symbolize_leaves(eng, C[n]))(n), tier))
        fams.append(run_family("corpus-%s-reversed" % n, (lambda n: lambda eng: permute(C[n], list(reversed(range(len(C[n]))))))(n), tier))
    for ename, efn in edits():
        for order in (0, 1): fams.append(run_family("edit-%s-o%d" % (ename, order), edit_family(ename, efn, order), tier))
    for n, mk in recursive_families() + generic_families() + release_families(): fams.append(run_family(n, mk, tier))
    if tier == "quick":
        # the one pair of edits that shows the recorded digit-suffix finding (a second m::W next to an existing m::W2), so that it is exercised on every run
        E = dict(edits())
        def both_q(reg, c):
            E["nested-struct-other-path"](reg, c); E["struct-field-added-generic"](reg, c)
        fams.append(run_family("edit2-nested-struct-other-path+struct-field-added-generic", edit_family("x", both_q, 0), tier))
    if tier == "thorough":
        # pairs of shape edits on the second member (the first edit of a pair may mask or unmask the second)
        E = edits()
        for i in range(len(E)):
            for j in range(i + 1, len(E)):
                if E[i][0].split("-")[0] == E[j][0].split("-")[0]: continue      # two edits of the same field: the second overwrites the first
                def both(reg, c, a=E[i][1], b=E[j][1]):
                    a(reg, c)
                    try: b(reg, c)
                    except (IndexError, KeyError, TypeError): pass
                fams.append(run_family("edit2-%s+%s" % (E[i][0], E[j][0]), edit_family("x", both, 0), tier))
    # free choice of field targets from the palette (all aliasing patterns)
    tg = list(range(9))
    for order in (0, 1):
        fams.append(run_family("palette-2fields-o%d" % order, two_member_family(2, tg if tier == "thorough" else [0, 1, 2, 4, 5, 6, 7], order), tier))
    # the three-field cross family over the two nested same-path pairs (W, W', V, V')
    for order in (0, 1):
        fams.append(run_family("palette-3fields-nested-pairs-o%d" % order, two_member_family(3, [4, 5, 6, 7] if tier == "quick" else [0, 2, 4, 5, 6, 7], order), tier))
    for f in fams:
        f.witnesses = ()
        if f.name.startswith("palette"): f.target_prefixes = 96
    return fams

def confirm(v, real):
    if "panic" in real: return True
    case = v["case"]; reg = regdsl.decode(bytes.fromhex(case["reg"]))
    if v.get("kind") == "dedup-leaves-shapes":
        import c04
        if "paths1" not in real: return False
        groups = c04.expected_groups(reg); gid = {}
        for p, gs in groups.items():
            for k, g in enumerate(gs):
                for i in g: gid[i] = (p, k)
        under = {}
        for i, p in enumerate(real["paths1"].split(",")):
            if i in gid: under.setdefault(p, set()).add(gid[i])
        return any(len(s) > 1 for s in under.values())
    if v.get("kind") == "other-error":
        return real.get("result") == "Err" and real.get("err_variant") != "DuplicateTypePath"
    if real.get("paths"): reg = with_paths(reg, [p.split("::") if p else [] for p in real["paths"].split(",")])
    return bool(faithful_check_concrete(reg, Settings(case["set"]), real, v.get("ids") or list(range(len(reg)))))

def same_id_binding_clash(reg):
    """two same-path composites with a field (not a bare parameter) of the SAME type id at the same position, where some id
    inside that type is bound to different parameter positions on the two sides (first matching parameter, as typegen
    resolves it): `Foo<T,U,V>{x:Vec<V>}` at <u8,u8,u16> next to `Foo<T,U,V>{x:Vec<U>}` at <u16,u16,u8>"""
    comps = [t for t in reg if t["def"][0] == "composite" and t["path"]]
    def idx(t, j): return next((k for k, (n, pid) in enumerate(t["params"]) if pid == j), None)
    for ai, A in enumerate(comps):
        for B in comps[ai + 1:]:
            if A["path"] != B["path"] or len(A["def"][1]) != len(B["def"][1]): continue
            for fa, fb in zip(A["def"][1], B["def"][1]):
                if fa["ty"] != fb["ty"]: continue
                if fa["type_name"] in [n for n, _ in A["params"]] or fb["type_name"] in [n for n, _ in B["params"]]: continue
                inside = set(regdsl.reachable(reg, [fa["ty"]])) | {fa["ty"]}
                if any(idx(A, j) != idx(B, j) for j in inside): return True
    return False
def classify(v):
    w = v["what"]; fam = v.get("family", "")
    if "panic" in w[:20]: return "panic"
    if v.get("kind") == "other-error": return "other-error"
    if fam.startswith("generic-repeated-arguments") and v.get("kind") in ("conflation", "dedup-leaves-shapes") and not v.get("digit_collision"):
        try:
            if same_id_binding_clash(regdsl.decode(bytes.fromhex(v["case"]["reg"]))): return "same-id-under-different-parameter-binding"
        except Exception: pass
    if v.get("kind") == "dedup-leaves-shapes": return "digit-suffix-collision" if v.get("digit_collision") else "dedup-leaves-shapes:" + fam.rsplit("-o", 1)[0]
    if "index" in w and ("variant" in fam or "versions" in fam or "index" in fam): return "variant-index-not-compared"
    return "conflation:" + fam.rsplit("-o", 1)[0]

if __name__ == "__main__":
    main(sys.modules[__name__])
