//! Corpus of Rust type definitions; scale-info derives the registries the harnesses start from, so every base
//! registry is one that scale-info really produces.
#![allow(dead_code)]
use parity_scale_codec::Compact;
use scale_info::{meta_type, PortableRegistry, Registry, TypeInfo};
use std::borrow::Cow;
use std::collections::{BTreeMap, BTreeSet, BinaryHeap, VecDeque};
use std::marker::PhantomData;

pub mod basic {
    use super::*;
    #[derive(TypeInfo)]
    pub struct Prims {
        pub b: bool,
        pub c: char,
        pub s: String,
        pub x8: u8,
        pub x16: u16,
        pub x32: u32,
        pub x64: u64,
        pub x128: u128,
        pub y8: i8,
        pub y16: i16,
        pub y32: i32,
        pub y64: i64,
        pub y128: i128,
    }
    #[derive(TypeInfo)]
    pub struct Unit;
    #[derive(TypeInfo, Clone)]
    pub struct Tup(pub u8, pub u32);
    #[derive(TypeInfo)]
    pub struct Single(pub u64);
    /// A documented struct.
    ///
    /// Second paragraph.
    #[derive(TypeInfo)]
    pub struct Containers {
        /// field doc
        pub v: Vec<u8>,
        pub arr: [u32; 4],
        pub t: (u8, u32),
        pub one: (u16,),
        pub o: Option<u32>,
        pub r: Result<u8, u32>,
        pub vv: Vec<Vec<u8>>,
        pub unit: (),
        pub tup_in: Tup,
        pub arr2: [[u8; 2]; 3],
        pub vt: Vec<(u8, Tup)>,
    }
    #[derive(TypeInfo)]
    pub struct Collections {
        pub bm: BTreeMap<u8, u32>,
        pub bs: BTreeSet<u8>,
        pub vd: VecDeque<u8>,
        pub bh: BinaryHeap<u8>,
        pub cow: Cow<'static, str>,
        pub cow2: Cow<'static, [u8]>,
        pub range: std::ops::Range<u32>,
        pub ri: std::ops::RangeInclusive<u32>,
        pub nz: std::num::NonZeroU32,
        pub bx: Box<u8>,
        pub s: String,
        pub cow3: Cow<'static, Tup>,
    }
    /// Enum docs
    #[derive(TypeInfo)]
    pub enum E {
        /// variant doc
        A,
        B(u8),
        C {
            x: u32,
            y: Tup,
        },
        #[codec(index = 7)]
        D(Box<E>),
        F(Vec<E>, u8),
    }
    /// enums whose names merely end in `Option`
    #[derive(TypeInfo)]
    pub enum ExecOption {
        None,
        Some(u8),
    }
    #[derive(TypeInfo)]
    pub struct OptionsAndArrays {
        pub e: ExecOption,
        pub o: Option<ExecOption>,
        pub empty_strings: [String; 0],
        pub tups: [Tup; 2],
        pub strings: [String; 3],
        pub nested: [[u8; 2]; 0],
    }
    /// non-ASCII identifiers
    #[derive(TypeInfo)]
    #[allow(non_snake_case)]
    pub struct Unicode {
        pub länge: u32,
        pub größe: Vec<(u8, Uebung)>,
    }
    #[derive(TypeInfo)]
    pub enum Uebung {
        Früh,
        Spät { dauer_in_µs: u64 },
    }
    #[derive(TypeInfo)]
    pub enum Empty {}
    #[derive(TypeInfo)]
    pub struct UsesE {
        pub e: E,
        pub oe: Option<E>,
    }
}

pub mod compact {
    use super::*;
    #[derive(TypeInfo, parity_scale_codec::Encode, parity_scale_codec::Decode, parity_scale_codec::CompactAs)]
    pub struct Wrapper(pub u64);
    #[derive(TypeInfo, parity_scale_codec::Encode, parity_scale_codec::Decode, parity_scale_codec::CompactAs)]
    pub struct NamedWrapper {
        pub inner: u32,
    }
    #[derive(TypeInfo, parity_scale_codec::Encode)]
    pub struct Comp {
        #[codec(compact)]
        pub a: u32,
        pub b: Compact<u64>,
        pub c: Vec<Compact<u16>>,
        pub w: Compact<Wrapper>,
        #[codec(compact)]
        pub nw: NamedWrapper,
        pub t: (Compact<u8>, u8),
        pub o: Option<Compact<u128>>,
    }
    #[derive(TypeInfo)]
    pub enum CompE {
        A(#[codec(compact)] u32, u8),
        B {
            #[codec(compact)]
            x: u64,
        },
    }
    #[derive(TypeInfo)]
    pub struct CompG<T> {
        #[codec(compact)]
        pub value: T,
        pub other: u8,
    }
    #[derive(TypeInfo)]
    pub struct UsesCompG {
        pub a: CompG<u32>,
        pub b: CompG<u128>,
    }
}

pub mod bits {
    use super::*;
    use bitvec::order::{Lsb0, Msb0};
    use bitvec::vec::BitVec;
    #[derive(TypeInfo)]
    pub struct Bits {
        pub a: BitVec<u8, Lsb0>,
        pub b: BitVec<u32, Msb0>,
        pub c: Vec<BitVec<u16, Lsb0>>,
    }
    #[derive(TypeInfo)]
    pub struct BitsG<S: bitvec::store::BitStore + 'static, O: bitvec::order::BitOrder + 'static> {
        pub f: BitVec<S, O>,
    }
    #[derive(TypeInfo)]
    pub struct UsesBitsG {
        pub a: BitsG<u8, Lsb0>,
        pub b: BitsG<u16, Msb0>,
    }
}

pub mod generics {
    use super::*;
    #[derive(TypeInfo, Clone)]
    pub struct G<T> {
        pub a: T,
        pub b: Vec<T>,
        pub c: Option<T>,
        pub d: u8,
    }
    #[derive(TypeInfo)]
    pub struct G2<A, B> {
        pub x: A,
        pub y: B,
        pub z: (B, A),
        pub arr: [A; 3],
    }
    #[derive(TypeInfo)]
    pub enum GE<T> {
        None,
        One(T),
        Many { items: Vec<T>, n: u32 },
    }
    #[derive(TypeInfo)]
    pub struct Nested<T> {
        pub g: G<T>,
        pub gg: G<G<T>>,
        pub bx: Box<u16>,
    }
    /// not coincidence-free (parameter directly under a transparent wrapper)
    #[derive(TypeInfo)]
    pub struct BoxedParam<T> {
        pub bx: Box<T>,
        pub v: Vec<Box<T>>,
    }
    #[derive(TypeInfo)]
    pub struct UsesBoxedParam {
        pub a: BoxedParam<u8>,
        pub b: BoxedParam<u16>,
    }
    #[derive(TypeInfo)]
    pub struct Uses {
        pub x: G<u8>,
        pub y: G<u32>,
        pub z: G2<u8, bool>,
        pub w: G2<bool, u8>,
        pub e1: GE<u16>,
        pub e2: GE<String>,
        pub n: Nested<u64>,
        pub n2: Nested<i8>,
    }
    pub mod inner {
        use super::*;
        #[derive(TypeInfo)]
        pub struct In {
            pub g: super::G<u8>,
            pub o: super::super::basic::Tup,
        }
        pub mod deep {
            use super::*;
            #[derive(TypeInfo)]
            pub struct Deep<T>(pub T, pub super::In);
        }
    }
    #[derive(TypeInfo)]
    pub struct UsesInner {
        pub a: inner::In,
        pub b: inner::deep::Deep<u8>,
        pub c: inner::deep::Deep<i32>,
    }
    #[derive(TypeInfo)]
    pub struct Ph<T>(pub PhantomData<T>);
    #[derive(TypeInfo)]
    pub struct NamedPh<T, U> {
        pub a: U,
        pub _p: PhantomData<T>,
    }
    /// tuple struct with an unused parameter
    #[derive(TypeInfo)]
    pub struct TuplePh<T>(pub u8, pub PhantomData<T>);
    /// enum with an unused parameter
    #[derive(TypeInfo)]
    pub enum EnumPh<T> {
        /// first
        A(u8),
        B(PhantomData<T>),
    }
    /// Cow around a generic item and a VecDeque of the parameter
    #[derive(TypeInfo)]
    pub struct CowG<T: Clone + 'static> {
        pub c: Cow<'static, G<T>>,
        pub q: VecDeque<T>,
        pub b: Box<G<u8>>,
    }
    #[derive(TypeInfo)]
    pub struct UsesCowG {
        pub a: CowG<u16>,
        pub b: CowG<i64>,
    }
    /// a user type whose name merely ends in `Box`
    #[derive(TypeInfo)]
    pub struct MyBox<T>(pub T);
    #[derive(TypeInfo)]
    pub struct UsesMyBox<T> {
        pub plain: MyBox<u8>,
        pub generic: MyBox<T>,
        pub real: Box<MyBox<T>>,
        pub v: Vec<MyBox<u16>>,
    }
    #[derive(TypeInfo)]
    pub struct UsesUsesMyBox {
        pub a: UsesMyBox<u32>,
        pub b: UsesMyBox<bool>,
    }
    /// typed-id pattern: the parameter only lives in the marker, and one instantiation uses the field's own type
    #[derive(TypeInfo)]
    pub struct Tagged<T> {
        pub id: u32,
        pub _tag: PhantomData<T>,
    }
    #[derive(TypeInfo)]
    pub struct UsesTagged {
        pub a: Tagged<u32>,
        pub b: Tagged<bool>,
        pub c: Vec<Tagged<u32>>,
    }
    /// parameter used only below two consecutive parameter-less containers
    #[derive(TypeInfo)]
    pub struct Matrix<T> {
        pub rows: Vec<Vec<T>>,
        pub pairs: Vec<(T, bool)>,
        pub arr: [Vec<T>; 2],
        pub opt: Option<Vec<T>>,
    }
    #[derive(TypeInfo)]
    pub struct UsesMatrix {
        pub a: Matrix<u16>,
        pub b: Matrix<u64>,
    }
    #[derive(TypeInfo)]
    pub struct TwoUnused<A, B> {
        pub x: u8,
        pub _p: PhantomData<(A, B)>,
    }
    #[derive(TypeInfo)]
    pub struct UsesTwoUnused {
        pub a: TwoUnused<u64, bool>,
        pub b: TwoUnused<super::basic::Tup, u8>,
    }
    /// user types whose names merely contain `Box` after a digit / an underscore / letters, next to real boxes
    #[derive(TypeInfo)]
    pub struct Vec2Box<T> {
        pub min: T,
        pub max: T,
    }
    #[allow(non_camel_case_types)]
    #[derive(TypeInfo)]
    pub struct My_Box<T>(pub T);
    #[derive(TypeInfo)]
    pub struct SandBox<T>(pub T);
    #[derive(TypeInfo)]
    pub struct UsesLookalikes {
        pub bounds: Vec2Box<u16>,
        pub under: My_Box<u8>,
        pub real_outside: Box<Vec2Box<u8>>,
        pub real_inside: SandBox<Box<u16>>,
        pub both: (MyBox<u16>, Box<bool>),
        pub opt: Option<SandBox<Box<u32>>>,
    }
    #[derive(TypeInfo)]
    pub enum CallLookalikes {
        A { inner: SandBox<Box<u16>>, plain: Vec2Box<u8> },
        B(MyBox<Box<u64>>, Box<u8>),
    }
    /// two parameters instantiated with one and the same type, one of them unused (not coincidence-free)
    #[derive(TypeInfo)]
    pub enum EitherPh<L, R> {
        Left(L),
        Right(PhantomData<R>),
    }
    #[derive(TypeInfo)]
    pub struct UsesSameArgs {
        pub a: NamedPh<u32, u32>,
        pub b: NamedPh<u8, u16>,
        pub e: EitherPh<u64, u64>,
        pub f: EitherPh<bool, u8>,
    }
    /// unit of measure
    #[derive(TypeInfo)]
    pub struct Kilo;
    /// a skipped parameter ...
    #[derive(TypeInfo)]
    #[scale_info(skip_type_params(U))]
    pub struct Measured<T, U: 'static> {
        pub value: T,
        pub scale: u8,
        pub _unit: PhantomData<U>,
    }
    /// ... used inside another generic definition with an argument that depends on the outer parameter
    #[derive(TypeInfo)]
    pub struct Reading<T> {
        pub raw: Measured<T, Kilo>,
        pub n: u8,
    }
    #[derive(TypeInfo)]
    pub struct UsesReading {
        pub a: Reading<u16>,
        pub b: Reading<u64>,
    }
    /// parameter names that are prefixes of one another ...
    #[derive(TypeInfo)]
    pub struct Pair<Hash, Hashing> {
        pub first: Hash,
        pub second: Hashing,
    }
    /// ... and parent parameters handed on in swapped position
    #[derive(TypeInfo)]
    pub struct Swapper<A, B> {
        pub p: Pair<B, A>,
        pub q: Pair<A, B>,
        pub v: Vec<Pair<B, A>>,
    }
    #[derive(TypeInfo)]
    pub struct UsesSwapper {
        pub x: Swapper<u8, u16>,
        pub y: Swapper<bool, u32>,
    }
    #[derive(TypeInfo)]
    pub struct UsesPh {
        pub t: TuplePh<u32>,
        pub e: EnumPh<u64>,
        pub a: Ph<u8>,
        pub b: Ph<u16>,
        pub c: NamedPh<u8, u16>,
        pub d: NamedPh<bool, u32>,
    }
}

pub mod reach {
    use super::*;
    #[derive(TypeInfo)]
    pub struct A1 {
        pub x: u8,
    }
    #[derive(TypeInfo)]
    pub struct B1 {
        pub y: Inner,
    }
    #[derive(TypeInfo)]
    pub struct Inner(pub u16);
    #[derive(TypeInfo)]
    pub struct Foo<T> {
        pub t: T,
    }
    #[derive(TypeInfo)]
    pub enum Choice {
        L(A1),
        R { b: Vec<B1> },
        N,
    }
    #[derive(TypeInfo)]
    pub struct Other {
        pub arr: [A1; 2],
        pub tup: (u8, Inner),
        pub c: Compact<super::compact::Wrapper>,
    }
    #[derive(TypeInfo)]
    pub struct Top {
        pub a: Foo<A1>,
        pub b: Foo<B1>,
        pub c: Option<Choice>,
        pub o: Other,
        pub alone: Lonely,
        pub ph: super::generics::Ph<OnlyArg>,
        pub ph2: Option<super::generics::NamedPh<OnlyArg2, u8>>,
    }
    #[derive(TypeInfo)]
    pub struct Lonely(pub bool);
    /// a type that is first met as an unused generic argument and only later as a plain field
    #[derive(TypeInfo)]
    pub struct Marker {
        pub inner: MarkerInner,
    }
    #[derive(TypeInfo)]
    pub struct MarkerInner(pub u32);
    #[derive(TypeInfo)]
    pub struct TwoRoles {
        pub tagged: super::generics::Ph<Marker>,
        pub plain: Marker,
        pub also: Option<super::generics::NamedPh<Marker, Lonely>>,
    }
    /// only ever mentioned as a generic argument
    #[derive(TypeInfo)]
    pub struct OnlyArg(pub u8);
    #[derive(TypeInfo)]
    pub enum OnlyArg2 {
        X,
    }
}

pub mod compact_as {
    use super::*;
    #[derive(TypeInfo)]
    pub struct OneU128(pub u128);
    #[derive(TypeInfo)]
    pub struct OneU8 {
        pub v: u8,
    }
    #[derive(TypeInfo)]
    pub struct OneI(pub i32);
    #[derive(TypeInfo)]
    pub struct OneBool(pub bool);
    #[derive(TypeInfo)]
    pub struct OneVec(pub Vec<u8>);
    #[derive(TypeInfo)]
    pub struct GenOne<T>(pub T);
    #[derive(TypeInfo)]
    pub struct TwoU(pub u32, pub u64);
    #[derive(TypeInfo)]
    pub struct NoFields;
    #[derive(TypeInfo)]
    pub enum OneVariant {
        V(u32),
    }
    #[derive(TypeInfo)]
    pub struct OneStruct(pub OneU8);
    #[derive(TypeInfo)]
    pub struct All {
        pub a: OneU128,
        pub b: OneU8,
        pub c: OneI,
        pub d: OneBool,
        pub e: OneVec,
        pub f: GenOne<u32>,
        pub g: TwoU,
        pub h: NoFields,
        pub i: OneVariant,
        pub j: OneStruct,
    }
}

pub mod calls {
    use super::*;
    /// pallet-call style enum
    #[derive(TypeInfo)]
    pub enum Call {
        /// transfer docs
        #[codec(index = 9)]
        Transfer {
            dest: super::basic::Tup,
            #[codec(compact)]
            value: u128,
            boxed: Box<Compact<u64>>,
            memo: Vec<u8>,
        },
        Remark(Vec<u8>),
        SetOne(u32),
        SetOneNamed {
            v: u16,
        },
        Batch(Vec<Call>, Box<Call>),
        /// a compact and a plain field of one and the same source type, in both orders
        TransferWithTip {
            dest: u64,
            #[codec(compact)]
            value: u128,
            tip: u128,
        },
        Reserve {
            fee: u32,
            #[codec(compact)]
            amount: u32,
            who: u64,
        },
        Nothing,
        WithOption(Option<super::basic::E>, [u8; 4], (u8, u16)),
    }
    #[derive(TypeInfo)]
    pub enum Event {
        Done(u64),
        Failed { code: u8, at: Box<super::basic::Tup> },
    }
    #[derive(TypeInfo)]
    pub struct Outer {
        pub c: Call,
        pub e: Event,
    }
}

pub mod rec {
    use super::*;
    #[derive(TypeInfo)]
    pub struct Rec {
        pub next: Option<Box<Rec>>,
        pub kids: Vec<Rec>,
        pub v: u8,
    }
    #[derive(TypeInfo)]
    pub enum Tree<T> {
        Leaf(T),
        Node(Box<Tree<T>>, Box<Tree<T>>),
    }
    #[derive(TypeInfo)]
    pub struct UsesTree {
        pub a: Tree<u8>,
        pub b: Tree<u32>,
    }
    #[derive(TypeInfo)]
    pub enum Quad {
        Leaf,
        Node(Box<Quad>, Box<Quad>, Box<Quad>, Box<Quad>),
    }
    #[derive(TypeInfo)]
    pub struct QuadForest {
        pub a: Quad,
        pub b: Quad,
        pub c: Quad,
    }
    /// a user type whose name ends in `Box` around a real Box inside a cycle
    #[derive(TypeInfo)]
    pub struct SandBox<T>(pub T);
    #[derive(TypeInfo)]
    pub enum Chain {
        End,
        Link(SandBox<Box<Chain>>),
        Opt(Option<SandBox<Box<Chain>>>, u8),
    }
    /// the same recursive enum reached several times
    #[derive(TypeInfo)]
    pub struct Forest {
        pub a: Tree<u8>,
        pub b: Tree<u8>,
        pub c: (Tree<u8>, Tree<u8>),
    }
    #[derive(TypeInfo)]
    pub struct MutA {
        pub b: Vec<MutB>,
    }
    #[derive(TypeInfo)]
    pub struct MutB {
        pub a: Option<Box<MutA>>,
        pub x: u8,
    }
}

pub mod assoc {
    use super::*;
    pub trait Config {
        type H: TypeInfo + 'static;
        type N: TypeInfo + 'static;
    }
    pub enum C1 {}
    pub enum C2 {}
    pub enum C3 {}
    /// same associated types as C1: Hdr<C1> and Hdr<C4> are two registry entries of one shape
    pub enum C4 {}
    impl Config for C4 {
        type H = [u8; 32];
        type N = u32;
    }
    impl TypeInfo for C4 {
        type Identity = Self;
        fn type_info() -> scale_info::Type {
            scale_info::Type::builder()
                .path(scale_info::Path::new("C4", "replay::corpus::assoc"))
                .variant(scale_info::build::Variants::new())
        }
    }
    #[derive(TypeInfo)]
    pub struct UsesTwins {
        pub h: [u8; 32],
        pub a: Hdr<C1>,
        pub b: Hdr<C4>,
        pub c: HdrNoSkip<C1>,
        pub d: HdrNoSkip<C4>,
    }
    impl Config for C1 {
        type H = [u8; 32];
        type N = u32;
    }
    impl Config for C2 {
        type H = [u8; 64];
        type N = u32;
    }
    impl Config for C3 {
        type H = [u8; 32];
        type N = u64;
    }
    #[derive(TypeInfo)]
    #[scale_info(skip_type_params(T))]
    pub struct Hdr<T: Config> {
        pub h: T::H,
        pub n: T::N,
    }
    #[derive(TypeInfo)]
    pub struct HdrNoSkip<T: Config + TypeInfo + 'static> {
        pub h: T::H,
        pub n: T::N,
    }
    impl TypeInfo for C1 {
        type Identity = Self;
        fn type_info() -> scale_info::Type {
            scale_info::Type::builder()
                .path(scale_info::Path::new("C1", "replay::corpus::assoc"))
                .variant(scale_info::build::Variants::new())
        }
    }
    impl TypeInfo for C2 {
        type Identity = Self;
        fn type_info() -> scale_info::Type {
            scale_info::Type::builder()
                .path(scale_info::Path::new("C2", "replay::corpus::assoc"))
                .variant(scale_info::build::Variants::new())
        }
    }
    impl TypeInfo for C3 {
        type Identity = Self;
        fn type_info() -> scale_info::Type {
            scale_info::Type::builder()
                .path(scale_info::Path::new("C3", "replay::corpus::assoc"))
                .variant(scale_info::build::Variants::new())
        }
    }
    #[derive(TypeInfo)]
    pub struct UsesHdr {
        pub a: Hdr<C1>,
        pub b: Hdr<C2>,
        pub c: Hdr<C3>,
    }
    #[derive(TypeInfo)]
    pub struct UsesHdrSame {
        pub a: Hdr<C1>,
        pub b: Hdr<C1>,
    }
    #[derive(TypeInfo)]
    pub struct UsesHdrNoSkip {
        pub a: HdrNoSkip<C1>,
        pub b: HdrNoSkip<C2>,
    }
}

/// two definitions with one and the same name in different modules, one with an unused parameter
pub mod samename {
    use super::*;
    pub mod a {
        use super::*;
        #[derive(TypeInfo)]
        pub struct Wrapper<T> {
            pub v: T,
        }
        #[derive(TypeInfo)]
        pub enum Kind<T> {
            One(T),
            Two,
        }
    }
    pub mod b {
        use super::*;
        #[derive(TypeInfo)]
        pub struct Wrapper<T> {
            pub v: u8,
            pub _p: PhantomData<T>,
        }
        #[derive(TypeInfo)]
        pub enum Kind<T> {
            One(u8),
            Two(PhantomData<T>),
        }
    }
    #[derive(TypeInfo)]
    pub struct UsesWrappers {
        pub first: a::Wrapper<u16>,
        pub second: b::Wrapper<u16>,
        pub k1: a::Kind<u32>,
        pub k2: b::Kind<u32>,
    }
    #[derive(TypeInfo)]
    pub struct UsesWrappersRev {
        pub first: b::Wrapper<u16>,
        pub second: a::Wrapper<u16>,
        pub k1: b::Kind<u32>,
        pub k2: a::Kind<u32>,
    }
}

pub mod prelude_extra {
    use super::*;
    #[derive(TypeInfo)]
    pub struct Dur {
        pub d: core::time::Duration,
    }
    #[derive(TypeInfo)]
    pub struct Pd {
        pub p: Option<PhantomData<u8>>,
    }
}

/// two "versions" of one crate: the harness strips the v1/v2 segment to obtain same-path families
pub mod versions {
    pub mod v1 {
        use scale_info::TypeInfo;
        #[derive(TypeInfo)]
        pub struct Item {
            pub a: u8,
            pub b: Vec<u32>,
        }
        #[derive(TypeInfo)]
        pub struct Holder {
            pub item: Item,
            pub n: u16,
        }
        #[derive(TypeInfo)]
        pub struct Pair<K, V> {
            pub keys: Vec<K>,
            pub values: Vec<V>,
        }
        #[derive(TypeInfo)]
        pub enum Kind {
            A,
            B(u8),
        }
    }
    pub mod v2 {
        use scale_info::TypeInfo;
        #[derive(TypeInfo)]
        pub struct Item {
            pub a: u8,
            pub b: Vec<u64>,
        }
        #[derive(TypeInfo)]
        pub struct Holder {
            pub item: Item,
            pub n: u16,
        }
        #[derive(TypeInfo)]
        pub struct Pair<V, K> {
            pub keys: Vec<K>,
            pub values: Vec<V>,
        }
        #[derive(TypeInfo)]
        pub enum Kind {
            A,
            B(u16),
        }
    }
    /// one definition per version whose fields use the two parameters the other way round; the first parameter's
    /// name is a prefix of the second's
    pub mod h1 {
        use scale_info::TypeInfo;
        #[derive(TypeInfo)]
        pub struct Header<Hash, Hashing> {
            pub parent: Hash,
            pub digest: Hashing,
        }
    }
    pub mod h2 {
        use scale_info::TypeInfo;
        #[derive(TypeInfo)]
        pub struct Header<Hash, Hashing> {
            pub parent: Hashing,
            pub digest: Hash,
        }
    }
    use scale_info::TypeInfo;
    #[derive(TypeInfo)]
    pub struct BothHdr {
        pub a: h1::Header<u32, u64>,
        pub b: h2::Header<u32, u64>,
    }
    /// the same two definitions, instantiated with mirrored arguments: both have the wire shape (u32, u64)
    #[derive(TypeInfo)]
    pub struct BothHdrMirror {
        pub a: h1::Header<u32, u64>,
        pub b: h2::Header<u64, u32>,
    }
    #[derive(TypeInfo)]
    pub struct Both {
        pub a: v1::Holder,
        pub b: v2::Holder,
        pub p1: v1::Pair<u8, u16>,
        pub p2: v2::Pair<u8, u16>,
        pub k1: v1::Kind,
        pub k2: v2::Kind,
    }
}

fn reg_of<T: TypeInfo + 'static>() -> PortableRegistry {
    let mut r = Registry::new();
    r.register_type(&meta_type::<T>());
    PortableRegistry::from(r)
}

pub fn all() -> Vec<(&'static str, PortableRegistry)> {
    vec![
        ("prims", reg_of::<basic::Prims>()),
        ("unit", reg_of::<basic::Unit>()),
        ("tup", reg_of::<basic::Tup>()),
        ("single", reg_of::<basic::Single>()),
        ("containers", reg_of::<basic::Containers>()),
        ("collections", reg_of::<basic::Collections>()),
        ("enum", reg_of::<basic::UsesE>()),
        ("empty_enum", reg_of::<basic::Empty>()),
        ("unicode", reg_of::<basic::Unicode>()),
        ("options_arrays", reg_of::<basic::OptionsAndArrays>()),
        ("compact", reg_of::<compact::Comp>()),
        ("compact_enum", reg_of::<compact::CompE>()),
        ("compact_generic", reg_of::<compact::UsesCompG>()),
        ("bits", reg_of::<bits::Bits>()),
        ("bits_generic", reg_of::<bits::UsesBitsG>()),
        ("generics", reg_of::<generics::Uses>()),
        ("modules", reg_of::<generics::UsesInner>()),
        ("boxed_param", reg_of::<generics::UsesBoxedParam>()),
        ("phantom", reg_of::<generics::UsesPh>()),
        ("two_unused", reg_of::<generics::UsesTwoUnused>()),
        ("tagged", reg_of::<generics::UsesTagged>()),
        ("skipnest", reg_of::<generics::UsesReading>()),
        ("lookalikes", reg_of::<generics::UsesLookalikes>()),
        ("lookalikes_enum", reg_of::<generics::CallLookalikes>()),
        ("swapper", reg_of::<generics::UsesSwapper>()),
        ("versions_hdr", reg_of::<versions::BothHdr>()),
        ("versions_hdr_mirror", reg_of::<versions::BothHdrMirror>()),
        ("same_args", reg_of::<generics::UsesSameArgs>()),
        ("two_roles", reg_of::<reach::TwoRoles>()),
        ("samename", reg_of::<samename::UsesWrappers>()),
        ("samename_rev", reg_of::<samename::UsesWrappersRev>()),
        ("matrix", reg_of::<generics::UsesMatrix>()),
        ("cow_generic", reg_of::<generics::UsesCowG>()),
        ("mybox", reg_of::<generics::UsesUsesMyBox>()),
        ("calls", reg_of::<calls::Outer>()),
        ("reach", reg_of::<reach::Top>()),
        ("compact_as", reg_of::<compact_as::All>()),
        ("rec", reg_of::<rec::Rec>()),
        ("tree", reg_of::<rec::UsesTree>()),
        ("forest", reg_of::<rec::Forest>()),
        ("chain", reg_of::<rec::Chain>()),
        ("quad_forest", reg_of::<rec::QuadForest>()),
        ("mutual", reg_of::<rec::MutA>()),
        ("assoc_skip", reg_of::<assoc::UsesHdr>()),
        ("assoc_same", reg_of::<assoc::UsesHdrSame>()),
        ("assoc_twins", reg_of::<assoc::UsesTwins>()),
        ("assoc_noskip", reg_of::<assoc::UsesHdrNoSkip>()),
        ("duration", reg_of::<prelude_extra::Dur>()),
        ("phantom_field", reg_of::<prelude_extra::Pd>()),
        ("versions", reg_of::<versions::Both>()),
    ]
}
