"""C18: standalone structs built from a variant's field list are wire-faithful."""
import os, sys
sys.path.insert(0, os.path.dirname(os.path.abspath(__file__)))
from gen_common import *
from oracles.descr import is_boxed_name
import c01, c08

ID = "C18"
CRATES = ("typegen",)
FUNCTIONS = ["TypeGenerator::{create_composite_ir_kind, upcast_composite, add_as_compact_derive, docs_from_scale_info, resolve_field_type_path, resolve_type_path_recurse, generate_types_mod}", "CompositeIR::{new, struct_field_tokens, enum_field_tokens}",
             "TypeParameters::from_scale_info", "<TypeIR as ToTokensWithSettings>::to_tokens", "CompositeIRKind::could_derive_as_compact", "DerivesRegistry::default_derives", "Derives::to_tokens"]
MODELS = c01.MODELS
ASSUMPTIONS = ["registries: corpus (pallet-call style enums with compact, boxed, boxed-compact, option, array and tuple fields; all parameter-free items of the other corpus registries); array lengths and variant indices symbolic",
               "the standalone struct is built exactly as the public API allows: create_composite_ir_kind(fields, TypeParameters::from_scale_info(&[])) -> CompositeIR::new -> upcast_composite -> to_token_stream"]
BOUNDS = {"quick": {"variants/structs": "every item without (non-skipped) parameters of 15 corpus registries, every variant", "settings": 4},
          "thorough": {"variants/structs": "the same for every corpus registry, plus the call/event/error enums of up to 60 pallets of the polkadot metadata (closed sub-registries, every variant)", "settings": 6}}
OUTSIDE = ["items with generic parameters (excluded by the statement)"]
GLOBAL_WITNESSES = ("Ok",)

SETS = [STD + Settings(["compact_as_path ::parity_scale_codec::CompactAs", "derive_all Debug", "derive_all Clone", "attrtok_all allow(dead_code)"]),
        Settings(["compact_path ::c::Compact", "bits_path ::b::Bits", "compact_as_path ::c::CompactAs"]),                      # codec attributes off, CompactAs configured, no global derives
        Settings(["compact_path ::c::Compact", "bits_path ::b::Bits", "codec_attrs", "attrtok_all cfg_attr(feature = \"x\", derive(Y))", "compact_as_path ::c::CompactAs"]),   # global attribute only
        Settings(["mod_name rt", "compact_path ::c::Compact", "bits_path ::b::Bits", "codec_attrs", "alloc ::alloc", "docs 0", "derive_all ::codec::Encode"]),
        STD, Settings(["compact_path ::c::Compact", "bits_path ::b::Bits", "derive_all A", "derive_all B", "attrtok_all a1", "attrtok_all a2(x)"])]

def standalone(eng, regv, s, g, reg, ti, vi):
    t = reg[ti]
    if vi is None: name = t["path"][-1]; fields = deref(regv).f[0].items[ti].f[1].f[2].f[0].f[0]; docs = deref(regv).f[0].items[ti].f[1].f[3]
    else:
        var = deref(regv).f[0].items[ti].f[1].f[2].f[0].f[0].items[vi]
        name = t["def"][1][vi]["name"]; fields = var.f[1]; docs = var.f[3]
    tp = eng.call("TypeParameters::from_scale_info", [], [Slot([VecV([])], 0)])
    kind = eng.call("TypeGenerator::create_composite_ir_kind", [], [Slot([g], 0), Slot([fields], 0), Slot([tp], 0)])
    if kind.idx == 1: return ("Err", err_parts(kind.f[0]))
    d = eng.call("TypeGenerator::docs_from_scale_info", [], [Slot([g], 0), Slot([docs], 0)])
    comp = eng.call("CompositeIR::new", [], [IdentV(name), kind.f[0], d])
    ir = eng.call("TypeGenerator::upcast_composite", [], [Slot([g], 0), Slot([comp], 0)])
    ts = eng.call("<TypeIR as ToTokensWithSettings>::to_token_stream", [], [Slot([ir], 0), Slot([s], 0)])
    return ("Ok", ts.t)

def strip_pub(f): return {"name": f["name"], "ty": f["ty"], "attrs": [a for a in f["attrs"] if a and a[0][1] != "doc"]}
def ty_str(ty): return repr(ty)
def compare_standalone(reg, st, ti, vi, struct_toks, module_toks, m=None):
    """problems of the standalone struct against (a) the enum's own variant in the emitted module, (b) the registry field list, (c) derive rule"""
    probs = []
    try:
        top = parse_mod_body(P(struct_toks))
        if len(top["items"]) != 1: return ["standalone output is not exactly one item"]
        it = next(iter(top["items"].values()))
        rname, module = parse_root(module_toks)
    except ReaderError as e: return ["does not parse: %s" % e]
    t = reg[ti]
    if it["kind"] != "struct" or it["params"]: probs.append("standalone item is not a parameter-free struct")
    enum_it = TokShapes(rname, module).lookup([rname] + t["path"])
    if vi is None: efields = [f for f in enum_it["fields"]]; rfields = t["def"][1]
    else:
        ev = next(v for v in enum_it["variants"] if v["name"] == t["def"][1][vi]["name"]); efields = ev["fields"]; rfields = t["def"][1][vi]["fields"]
    sf = it["fields"]
    if len(sf) != len(efields): probs.append("standalone struct has %d fields, the generated item's variant has %d" % (len(sf), len(efields)))
    else:
        for a, b in zip(sf, efields):
            if a["name"] != b["name"]: probs.append("field name %s vs %s" % (a["name"], b["name"]))
            if plain_tok_str_ty(a["ty"]) != plain_tok_str_ty(b["ty"]): probs.append("field %s has type %s, the variant's field has %s" % (a["name"], plain_tok_str_ty(a["ty"]), plain_tok_str_ty(b["ty"])))
            ca = codec_attr(a["attrs"], "compact") is not None; cb = codec_attr(b["attrs"], "compact") is not None
            if ca != cb: probs.append("field %s compact marker %s, the variant's field %s" % (a["name"], ca, cb))
    # (b) shape against the registry field list
    ts = TokShapes(rname, module, st.get("compact_path"), st.get("bits_path"), st.alloc_root()); rs = RegShapes(reg)
    try:
        if st.has("codec_attrs"):
            a = ("struct", nophantom([ts.field(f, {}, 6) for f in sf])); b = ("struct", nophantom([(f["name"], rs.shape(f["ty"], 5)) for f in rfields]))
            e = shape_eq(a, b)
            if e is False: probs.append("standalone struct's shape differs from the registry's field list: %s" % shape_diff(a, b))
            elif e is not True: probs.append(("leaf", e))
    except (ShapeError, ReaderError) as ex: probs.append("shape: %s" % ex)
    # boxes: a field is boxed iff the recorded type name says so
    for a, r in zip(sf, rfields):
        boxed = a["ty"][0] == "path" and a["ty"][2][-1] == "Box"
        if boxed != is_boxed_name(r.get("type_name")): probs.append("field %s Box wrapper %s but recorded type name is %r" % (a["name"], boxed, r.get("type_name")))
    # (c) derives = global derives + attributes, + CompactAs iff configured and single primitive unsigned field
    gd = set(c08.norm(x.split(" ", 1)[1]) for x in st.d if x.startswith("derive_all ")); ga = set(c08.norm(x.split(" ", 1)[1]) for x in st.d if x.startswith("attrtok_all "))
    ca = st.get("compact_as_path")
    if ca and len(rfields) == 1 and reg[rfields[0]["ty"]]["def"] in [("primitive", p) for p in ("U8", "U16", "U32", "U64", "U128")]: gd.add(c08.norm(ca))
    od = set(c08.norm(x) for x in derive_list(it["attrs"])); oa = set(c08.norm(plain_tok_str(a)) for a in it["attrs"] if a and a[0][1] not in ("derive", "doc"))
    if od != gd: probs.append("standalone struct derives %s, expected %s" % (sorted(od), sorted(gd)))
    if oa != ga: probs.append("standalone struct has attributes %s, expected %s" % (sorted(oa), sorted(ga)))
    return probs
def plain_tok_str_ty(ty): return repr(ty)

def make_family(name, reg0, st, ti, vi):
    def mk(eng): return symbolize_leaves(eng, reg0)
    def run(eng, reg):
        out, regv, s = generate(eng, reg, st)
        m = eng.model(); creg = concretize(reg, m)
        case = {"op": "standalone", "reg": regdsl.encode(creg).hex(), "set": st.replay(), "id": str(ti)}
        if vi is not None: case["variant"] = str(vi)
        res = {"violations": []}
        if out["result"] != "Ok": res["outcome"] = "Err:" + out["err"][0]; return res
        r = standalone(eng, regv, s, out["gen"], reg, ti, vi)
        if r[0] == "Err":
            res["outcome"] = "standalone-Err"; res["violations"].append({"what": "standalone struct construction fails: %r" % (r[1],), "case": case, "ti": ti, "vi": vi}); return res
        res["outcome"] = "Ok"
        for p in compare_standalone(reg, st, ti, vi, r[1], out["tokens"]):
            if isinstance(p, tuple):
                if eng.holds(p[1]): continue
                mm = eng.model(z3.Not(p[1])); cr = concretize(reg, mm)
                res["violations"].append({"what": "numeric leaf of the standalone struct differs from the registry", "case": dict(case, reg=regdsl.encode(cr).hex()), "ti": ti, "vi": vi}); continue
            res["violations"].append({"what": "%s | %s of id %d | settings %s | %s" % (p, "variant %d" % vi if vi is not None else "struct", ti, st.d, "; ".join(describe(creg, 4))), "case": case, "ti": ti, "vi": vi})
        res["validate"] = dict(case, expect={"result": "Ok", "tokens": plain_tok_str(concretize_tokens(r[1], m))})
        res["sample"] = {"type": "::".join(reg0[ti]["path"]), "variant": vi, "struct": plain_tok_str(concretize_tokens(r[1], m))[:300]}
        return res
    return Family(name, mk, run, target_prefixes=1)

def roles_registry():
    """one type in several roles inside ONE field list: boxed and unboxed, compact and plain, in either order, named and unnamed"""
    from regdsl import prim, seq, cpt, comp, enum, var, fld
    return [prim("U8"), comp(["m", "Leaf"], [fld("v", 0, "u8")]), prim("U32"), cpt(2), seq(1),
            enum(["m", "Call"], [var("batch", [fld("head", 1, "Box<Leaf>"), fld("n", 0, "u8"), fld("tail", 1, "Leaf")], 0),
                                  var("pair", [fld(None, 1, "Leaf"), fld(None, 0, "u8"), fld(None, 1, "Box<Leaf>")], 1),
                                  var("amounts", [fld("a", 3, "Compact<u32>"), fld("b", 2, "u32"), fld("c", 3, "Compact<u32>"), fld("d", 2, "u32")], 2),
                                  var("mixed", [fld("x", 2, "u32"), fld("y", 3, "Compact<u32>"), fld("l", 4, "Vec<Leaf>"), fld("bl", 4, "Box<Vec<Leaf>>"), fld("l2", 4, "Vec<Leaf>")], 3)]),
            comp(["m", "Batch"], [fld("head", 1, "Box<Leaf>"), fld("tail", 1, "Leaf"), fld("again", 1, "Box<Leaf>")]),
            comp(["m", "Tup"], [fld(None, 1, "Leaf"), fld(None, 1, "Box<Leaf>"), fld(None, 1, "Leaf")])]
def families(eng, tier, seed):
    C = corpus(); fams = []; sets = SETS if tier == "thorough" else SETS[:4]
    rr = roles_registry()
    for ti in (5, 6, 7):
        for vi in ([None] if rr[ti]["def"][0] == "composite" else range(len(rr[ti]["def"][1]))):
            for si, st in enumerate(sets[:2]): fams.append(make_family("standalone-roles-%d.%s-s%d" % (ti, vi, si), rr, st, ti, vi))
    names = ("calls", "enum", "compact_enum", "compact", "containers", "collections", "compact_as", "reach", "bits", "rec", "single", "tup", "prims", "lookalikes_enum", "lookalikes")
    if tier == "thorough": names = tuple(n for n in C if n not in ("empty_enum",))      # every corpus registry: all items emitted without generic parameters
    for n in names:
        r = C[n]
        for ti in user_ids(r):
            t = r[ti]
            if any(p is not None for _, p in t["params"]): continue          # skipped parameters do not make the generated item generic
            sites = [None] if t["def"][0] == "composite" else list(range(len(t["def"][1])))
            for vi in sites:
                for si, st in enumerate(sets):
                    if tier == "quick" and n not in ("calls", "compact_as", "compact_enum") and si not in (0, 1): continue
                    fams.append(make_family("standalone-%s-%d.%s-s%d" % (n, ti, vi, si), r, st, ti, vi))
    if tier == "thorough":
        P = polkadot(); npal = 0
        for i in user_ids(P):
            t = P[i]
            if t["def"][0] != "variant" or t["path"][-1] not in ("Call", "Event", "Error") or any(p is not None for _, p in t["params"]): continue
            sub, mp = restrict(P, [i])
            if not (3 <= len(sub) <= 200): continue
            ni = mp[i] if isinstance(mp, dict) else mp.index(i) if i in mp else None
            if ni is None or sub[ni]["path"] != t["path"]: continue
            if len({tuple(u["path"]) for u in sub if u["path"]}) < sum(1 for u in sub if u["path"]): continue     # same-path entries need de-duplication first (C04)
            for vi in range(len(sub[ni]["def"][1])): fams.append(make_family("standalone-polkadot-%s-%d.%d" % ("_".join(t["path"][-2:]), i, vi), sub, sets[0], ni, vi))
            npal += 1
            if npal >= 60: break
    return fams

def confirm(v, real):
    if "panic" in real: return True
    case = v["case"]; reg = regdsl.decode(bytes.fromhex(case["reg"])); st = Settings(case["set"])
    if real.get("result") != "Ok": return "construction fails" in v["what"]
    if "module" not in real: return False
    ps = compare_standalone(reg, st, v["ti"], v["vi"], tokenize(real["tokens"]), tokenize(real["module"]))
    return any(not isinstance(p, tuple) for p in ps)
def classify(v):
    w = v["what"]
    for k in ("derives", "attributes", "compact marker", "Box wrapper", "has type", "shape differs", "fields, the generated", "field name", "construction fails", "numeric leaf"):
        if k in w: return k
    return "other"
if __name__ == "__main__":
    main(sys.modules[__name__])
