"""Lockstep reader of type descriptions (description crate) against the registry.

The text is a list of pieces: str | ("int", term) for symbolic numbers. The reader walks the registry from the
described id and consumes the text; it returns the list of problems, the numeric equalities to discharge and the
set of named types that were written out in full."""
import re

class DescError(Exception): pass
PRIM = {"Bool": "bool", "Char": "char", "Str": "String", "U8": "u8", "U16": "u16", "U32": "u32", "U64": "u64", "U128": "u128", "U256": "u256",
        "I8": "i8", "I16": "i16", "I32": "i32", "I64": "i64", "I128": "i128", "I256": "i256"}

def flatten(pieces):
    """-> list of chars and ("int", term) items"""
    out = []
    for p in pieces:
        if isinstance(p, str): out += list(p)
        else: out.append(p)
    return out

def is_boxed_name(tn):
    if not tn: return False
    for m in re.finditer(r"Box<", tn):
        if m.start() == 0 or not (tn[m.start()-1].isalnum() or tn[m.start()-1] == "_"): return True
    return False

class Reader:
    def __init__(self, reg, text, strict_ws=True):
        self.reg = reg; self.t = flatten(text); self.i = 0; self.eqs = []; self.expanded = []; self.mentioned = set()
    def peek(self, n=1): return self.t[self.i:self.i+n]
    def lit(self, s):
        for c in s:
            if self.i >= len(self.t) or self.t[self.i] != c:
                raise DescError("expected %r at offset %d, found %r" % (s, self.i, "".join(x if isinstance(x, str) else "<n>" for x in self.t[self.i:self.i+12])))
            self.i += 1
    def starts(self, s): return self.t[self.i:self.i+len(s)] == list(s)
    def number(self, want):
        if self.i < len(self.t) and not isinstance(self.t[self.i], str):
            self.eqs.append((self.t[self.i][1], want)); self.i += 1; return
        j = self.i
        while j < len(self.t) and isinstance(self.t[j], str) and self.t[j].isdigit(): j += 1
        if j == self.i: raise DescError("number expected at offset %d" % self.i)
        self.eqs.append((int("".join(self.t[self.i:j])), want)); self.i = j
    def done(self): return self.i >= len(self.t)

    # --- names (never expanded)
    def name(self, i):
        t = self.reg[i]; d = t["def"]; k = d[0]
        if k == "sequence": self.lit("Vec<"); self.name(d[1]); self.lit(">"); return
        if k == "array": self.lit("["); self.name(d[2]); self.lit(";"); self.number(d[1]); self.lit("]"); return
        if k == "tuple":
            self.lit("(")
            for j, x in enumerate(d[1]):
                self.name(x)
                if j + 1 < len(d[1]) or len(d[1]) == 1: self.lit(",")
            self.lit(")"); return
        if k == "primitive": self.lit(PRIM[d[1]]); return
        if k == "compact": self.lit("Compact<"); self.name(d[1]); self.lit(">"); return
        if k == "bitseq": self.lit("BitSequence"); return
        if not t["path"]: self.lit("_"); return
        self.lit(t["path"][-1])
        ps = t["params"]
        if ps:
            self.lit("<")
            for j, (n, p) in enumerate(ps):
                if p is None: self.lit("_")
                else: self.name(p)
                if j + 1 < len(ps): self.lit(",")
            self.lit(">")
    # --- full descriptions
    def desc(self, i):
        t = self.reg[i]; d = t["def"]; k = d[0]
        named = bool(t["path"]) and k in ("composite", "variant")
        if named:
            self.mentioned.add(i)
            kw = "struct " if k == "composite" else "enum "
            if self.starts(kw) and not self.name_follows(i):
                self.lit(kw); self.name(i); self.expanded.append(i)
                if k == "composite": self.fields(d[1])
                else: self.variants(d[1])
            else: self.name(i)
            return
        if k == "composite": self.fields(d[1]); return       # path-less composite (does not occur in scale-info output)
        if k == "variant": self.variants(d[1]); return
        if k == "sequence": self.lit("Vec<"); self.desc(d[1]); self.lit(">"); return
        if k == "array": self.lit("["); self.desc(d[2]); self.lit("; "); self.number(d[1]); self.lit("]"); return
        if k == "tuple":
            self.lit("(")
            for j, x in enumerate(d[1]):
                self.desc(x)
                if j + 1 < len(d[1]) or len(d[1]) == 1: self.lit(",")
            self.lit(")"); return
        if k == "primitive": self.lit(PRIM[d[1]]); return
        if k == "compact": self.lit("Compact<"); self.desc(d[1]); self.lit(">"); return
        if k == "bitseq": self.lit("BitSequence("); self.desc(d[2]); self.lit(", "); self.desc(d[1]); self.lit(")"); return
        raise DescError("unknown type def")
    def name_follows(self, i):
        """a type whose own name begins with 'struct '/'enum ' cannot exist (no spaces in identifiers)"""
        return False
    def fields(self, fs):
        if not fs: self.lit("()"); return
        named = fs[0]["name"] is not None
        self.lit("{" if named else "(")
        for j, f in enumerate(fs):
            if named: self.lit(f["name"]); self.lit(": ")
            boxed = is_boxed_name(f.get("type_name"))
            if boxed: self.lit("Box<")
            self.desc(f["ty"])
            if boxed: self.lit(">")
            if j + 1 < len(fs): self.lit(",")
        self.lit("}" if named else ")")
    def variants(self, vs):
        self.lit("{")
        for j, v in enumerate(vs):
            self.lit(v["name"])
            if v["fields"]: self.fields(v["fields"])
            if j + 1 < len(vs): self.lit(",")
        self.lit("}")

def reachable_named(reg, root):
    """named structs/enums reachable through fields and element types (type parameters are not followed)"""
    seen = set(); work = [root]; named = set()
    while work:
        i = work.pop()
        if i in seen: continue
        seen.add(i); t = reg[i]; d = t["def"]; k = d[0]
        if t["path"] and k in ("composite", "variant"): named.add(i)
        if k == "composite": work += [f["ty"] for f in d[1]]
        elif k == "variant": work += [f["ty"] for v in d[1] for f in v["fields"]]
        elif k in ("sequence", "compact"): work.append(d[1])
        elif k == "array": work.append(d[2])
        elif k == "tuple": work += list(d[1])
        elif k == "bitseq": work += [d[1], d[2]]
    return named

def check_description(reg, root, pieces):
    """-> (problems, numeric equalities [(got, want)])"""
    r = Reader(reg, pieces)
    try:
        r.desc(root)
        if not r.done(): raise DescError("trailing text at offset %d: %r" % (r.i, "".join(x if isinstance(x, str) else "<n>" for x in r.t[r.i:r.i+20])))
    except DescError as e:
        return ["description of id %d does not read in lockstep with the registry: %s" % (root, e)], r.eqs
    probs = []
    need = reachable_named(reg, root)
    missing = need - set(r.expanded)
    if missing: probs.append("reachable struct/enum never written out in full: %s" % sorted("::".join(reg[i]["path"]) for i in missing))
    return probs, r.eqs
