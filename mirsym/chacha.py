"""ChaCha8Rng (rand_chacha 0.3.1) + rand 0.8.5 sampling, concrete, for differential runs."""
M32 = 0xFFFFFFFF
def rotl(x, n): return ((x << n) & M32) | (x >> (32 - n))
def qr(s, a, b, c, d):
    s[a] = (s[a] + s[b]) & M32; s[d] = rotl(s[d] ^ s[a], 16)
    s[c] = (s[c] + s[d]) & M32; s[b] = rotl(s[b] ^ s[c], 12)
    s[a] = (s[a] + s[b]) & M32; s[d] = rotl(s[d] ^ s[a], 8)
    s[c] = (s[c] + s[d]) & M32; s[b] = rotl(s[b] ^ s[c], 7)
def block(key, counter, rounds=8):
    init = [0x61707865, 0x3320646e, 0x79622d32, 0x6b206574] + key + [counter & M32, (counter >> 32) & M32, 0, 0]
    s = list(init)
    for _ in range(rounds // 2):
        qr(s, 0, 4, 8, 12); qr(s, 1, 5, 9, 13); qr(s, 2, 6, 10, 14); qr(s, 3, 7, 11, 15)
        qr(s, 0, 5, 10, 15); qr(s, 1, 6, 11, 12); qr(s, 2, 7, 8, 13); qr(s, 3, 4, 9, 14)
    return [(x + y) & M32 for x, y in zip(s, init)]
class ChaCha8:
    def __init__(self, seed_u64):
        st = seed_u64; seed = b""
        for _ in range(8):
            st = (st * 6364136223846793005 + 11634580027462260723) & 0xFFFFFFFFFFFFFFFF
            xs = (((st >> 18) ^ st) >> 27) & M32; rot = st >> 59
            x = ((xs >> rot) | (xs << ((32 - rot) & 31))) & M32
            seed += x.to_bytes(4, "little")
        self.key = [int.from_bytes(seed[i:i+4], "little") for i in range(0, 32, 4)]
        self.counter = 0; self.results = []; self.index = 64
    def refill(self):
        self.results = []
        for i in range(4): self.results += block(self.key, self.counter + i)
        self.counter += 4
    def generate_and_set(self, idx): self.refill(); self.index = idx
    def next_u32(self):
        if self.index >= 64: self.generate_and_set(0)
        v = self.results[self.index]; self.index += 1; return v
    def next_u64(self):
        i = self.index
        if i < 63: self.index += 2; return (self.results[i+1] << 32) | self.results[i]
        if i >= 64: self.generate_and_set(2); return (self.results[1] << 32) | self.results[0]
        x = self.results[63]; self.generate_and_set(1); return (self.results[0] << 32) | x
    # rand::distributions::Standard
    def gen(self, ty):
        if ty == "bool": return (self.next_u32() >> 31) == 1
        if ty in ("u8", "i8"): return self.next_u32() & 0xFF
        if ty in ("u16", "i16"): return self.next_u32() & 0xFFFF
        if ty in ("u32", "i32"): return self.next_u32()
        if ty in ("u64", "i64"): return self.next_u64()
        if ty in ("u128", "i128"):
            x = self.next_u64(); y = self.next_u64(); return (y << 64) | x
        raise ValueError(ty)
    def gen_range_u32(self, low, high):   # [low, high)
        rng = (high - 1 - low + 1) & M32
        if rng == 0: return self.next_u32()
        lz = 32 - rng.bit_length()
        zone = (((rng << lz) & M32) - 1) & M32
        while True:
            v = self.next_u32(); m = v * rng; hi, lo = m >> 32, m & M32
            if lo <= zone: return (low + hi) & M32
if __name__ == "__main__":
    for s in (42, 7):
        r = ChaCha8(s); print(s, r.gen("u8"))
