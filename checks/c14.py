"""C14: Rust value examples conform to the generated type definitions."""
import os, sys
sys.path.insert(0, os.path.dirname(os.path.abspath(__file__)))
from gen_common import *
from oracles.expr import *
import c01, c12

ID = "C14"
CRATES = ("description", "typegen")
FUNCTIONS = ["type_example::rust_value::{example_from_seed (+ policies), ty_example, fields_example (+ field_is_explicit_compact), primitive_example}", "CodeTransformer::{resolve_type_path_omit_generics (+ omit_generics), has_unused_type_params, resolve_type, type_def_is_copy}",
             "transformer::Transformer::{new, resolve, state}", "TypeGenerator::{resolve_type_path, create_type_ir, resolve_type}"] + c01.FUNCTIONS[1:6]
MODELS = c12.MODELS + ["proc_macro2 TokenStream iteration (TokenTree) for omit_generics", "quote runtime"]
ASSUMPTIONS = ["registries: corpus registries without bit sequences / 256-bit integers; every id; A-rng as in C12 (integer draws symbolic, variant/char/string choices fork)",
               "the example is read by an independent expression reader and compared in lockstep with the registry AND with the item the generator emits for the same id under the same settings (path without generics, field names/arity incl. the marker, literal suffix = primitive kind, tuple/array/vec arity, Compact(..) exactly around explicitly Compact-typed fields)"]
BOUNDS = {"quick": {"ids": "every id", "paths per (registry, id)": "all draw sequences, capped at 60", "settings": 2}, "thorough": {"paths per (registry, id)": "capped at 400", "settings": 3}}
OUTSIDE = ["bit sequences and 256-bit integers (excluded by the quantifier)", "middlewares are None"]
GLOBAL_WITNESSES = ("value", "error")
SETS = [Settings(["compact_path ::parity_scale_codec::Compact", "bits_path ::scale_bits::DecodedBits"]), Settings(["mod_name runtime_types", "compact_path Compact", "bits_path DecodedBits", "alloc ::alloc"]), STD]
SKIP = {"bits", "bits_generic", "empty_enum"}

def omit_generics(toks):
    out = []
    for t in toks:
        if t[0] == "p" and t[1] == "<": break
        out.append(t)
    return out
def path_of(toks):
    p = P(list(toks)); lead = False
    if p.is_p(":") and p.is_p(":", 1): p.eat(); p.eat(); lead = True
    segs = [p.expect_i()]
    while p.is_p(":") and p.is_p(":", 1) and p.is_i(None, 2): p.eat(); p.eat(); segs.append(p.expect_i())
    return (lead, segs)

def check_example(reg, i, ex_toks, module_toks, resolve_toks):
    """problems of the example for id i; resolve_toks: id -> tokens of resolve_type_path"""
    try: e = parse_expr(P(list(ex_toks)))
    except (ExprError, ReaderError) as x: return ["example does not parse as an expression: %s" % x]
    try: rname, module = parse_root(module_toks)
    except ReaderError as x: return ["module does not parse: %s" % x]
    items = {(rname,) + p: it for p, it in walk_items(module)}
    def named_path(j):
        r = resolve_toks.get(j)
        if r is None: return None
        try: return path_of(omit_generics(r))
        except ReaderError: return None
    ls = Lockstep(reg, named_path, items, rname)
    ls.value(e, i, "value")
    return ls.probs

def make_family(name, reg0, i, st, limit):
    ids = list(range(len(reg0)))
    def mk(eng): return regdsl._clone(reg0)
    def run(eng, reg):
        regv = to_engine(reg); res = {"violations": []}
        s = st.apply(eng)
        case = {"op": "rust_example", "reg": regdsl.encode(reg).hex(), "set": st.replay(), "id": str(i), "seed": "0", "nseeds": "64"}
        r1 = eng.call("rust_value::example_from_seed", [], [Sc("u32", i), Slot([regv], 0), Slot([s], 0), Sc("u64", 7), none(), none()])
        r2 = eng.call("rust_value::example_from_seed", [], [Sc("u32", i), Slot([regv], 0), Slot([s], 0), Sc("u64", 7), none(), none()])
        t1 = c17canon(r1.f[0].t) if r1.idx == 0 else "Err"; t2 = c17canon(r2.f[0].t) if r2.idx == 0 else "Err"
        if t1 != t2: res["violations"].append({"what": "two executions with the same seed give different examples for id %d: %s vs %s" % (i, t1[:160], t2[:160]), "case": case, "kind": "determinism"})
        if r1.idx == 1: res["outcome"] = "error"; return res
        res["outcome"] = "value"
        out, _, _ = generate(eng, regdsl._clone(reg), st, resolve=ids)
        if out["result"] != "Ok": res["outcome"] = "gen-err"; return res
        rt = {j: v[1] for j, v in out["resolve"].items() if v[0] == "Ok"}
        for p in check_example(reg, i, r1.f[0].t, out["tokens"], rt):
            res["violations"].append({"what": "example for id %d: %s | example %s | %s" % (i, p, t1[:200], "; ".join(describe(reg, 6))), "case": case, "kind": "lockstep"})
        if hash(tuple(eng.decisions)) % 23 == 0: res["sample"] = {"id": i, "example": t1[:200]}
        return res
    def on_panic(eng, reg, msg):
        return {"outcome": "panic", "violations": [{"what": "rust example generation panics / does not terminate for id %d: %s" % (i, msg), "case": {"op": "rust_example", "reg": regdsl.encode(reg).hex(), "set": st.replay(), "id": str(i), "seed": "0", "nseeds": "64"}, "kind": "panic"}]}
    def setup(eng): eng.rng_mode = "symbolic"; eng.max_depth = 500
    return Family(name, mk, run, target_prefixes=1, on_panic=on_panic, limit=limit, setup=setup)
def c17canon(toks):
    import c17; return c17.canon(toks)

def exact_family(name, reg0, ids, seeds, st):
    def setup(eng): eng.rng_mode = "exact"; eng.max_depth = 2000
    def mk(eng): return eng.choose([(i, True) for i in ids]), eng.choose([(s, True) for s in seeds])
    def run(eng, ctx):
        i, seed = ctx
        regv = to_engine(reg0); s = st.apply(eng)
        r = eng.call("rust_value::example_from_seed", [], [Sc("u32", i), Slot([regv], 0), Slot([s], 0), Sc("u64", seed), none(), none()])
        got = plain_tok_str(r.f[0].t) if r.idx == 0 else "ERR"
        case = {"op": "rust_example", "reg": regdsl.encode(reg0).hex(), "set": st.replay(), "id": str(i), "seed": str(seed), "nseeds": "1"}
        return {"outcome": "exact", "violations": [], "validate": dict(case, expect={"example": got})}
    def on_panic(eng, ctx, msg):
        i, seed = ctx
        return {"outcome": "panic", "violations": [{"what": "rust example generation panics / does not terminate for id %d, seed %d: %s" % (i, seed, msg), "kind": "panic",
                                                    "case": {"op": "rust_example", "reg": regdsl.encode(reg0).hex(), "set": st.replay(), "id": str(i), "seed": str(seed), "nseeds": "1"}}]}
    return Family(name, mk, run, target_prefixes=16, setup=setup, on_panic=on_panic)

def marker_registry():
    """unused-parameter markers: a parameter used by two fields next to an unused one; two instantiations of one generic
    type in ONE example (state kept across items of one call), one of them with an argument that coincides with a fixed component"""
    from regdsl import prim, seq, tup, comp, enum, var, fld
    return [prim("U8"), prim("Bool"), seq(0), prim("U32"),
            comp(["m", "Pair"], [fld("a", 0, "T"), fld("b", 0, "T")], params=[("T", 0), ("U", 1)]),
            comp(["m", "Triple"], [fld("a", 3, "V"), fld("b", 3, "V"), fld("c", 3, "V")], params=[("T", 0), ("U", 1), ("V", 3)]),
            comp(["m", "Tagged"], [fld("bytes", 2, "Vec<u8>")], params=[("T", 1)]),
            comp(["m", "Tagged"], [fld("bytes", 2, "Vec<u8>")], params=[("T", 3)]),
            tup([6, 7]), tup([7, 6]),
            enum(["m", "E"], [var("A", [fld(None, 1, "U"), fld(None, 1, "U")], 0), var("B", [fld("x", 1, "U")], 1)], params=[("T", 0), ("U", 1)]),
            comp(["m", "Holder"], [fld("p", 4, "Pair<u8, bool>"), fld("t", 5, "Triple<u8, bool, u32>"), fld("e", 10, "E<u8, bool>"), fld("g", 8, "(Tagged<bool>, Tagged<u32>)")]),
            comp(["m", "Tagged"], [fld("bytes", 2, "Vec<u8>")], params=[("T", 0)]), tup([6, 12]), tup([12, 6])]
def families(eng, tier, seed):
    C = corpus(); fams = []; limit = 60 if tier == "quick" else 400; rnd = random.Random(seed)
    sets = SETS[:2] if tier == "quick" else SETS
    mr = marker_registry()
    for i in range(4, len(mr)):
        for si, st in enumerate(sets): fams.append(make_family("rustexample-markers-%d-s%d" % (i, si), mr, i, st, limit))
    fams.append(exact_family("exact-markers", mr, list(range(4, len(mr))), [seed * 3 + 1, 42], sets[0]))
    for n, r in C.items():
        if n in SKIP or any(t["def"][0] == "bitseq" or t["def"] in (("primitive", "U256"), ("primitive", "I256")) for t in r): continue
        for i in range(len(r)):
            for si, st in enumerate(sets):
                if si and (i % 3): continue
                fams.append(make_family("rustexample-%s-%d-s%d" % (n, i, si), r, i, st, limit))
        ids = list(range(len(r))); rnd.shuffle(ids)
        fams.append(exact_family("exact-%s" % n, r, sorted(ids[:5]), [seed * 3 + 1, 42], sets[0]))
    return fams

VALIDATE_K = {"quick": 80, "thorough": 300}
def confirm(v, real):
    if "panic" in real: return True
    if v["kind"] == "panic": return False
    if v["kind"] == "determinism": return "fail" in real
    reg = regdsl.decode(bytes.fromhex(v["case"]["reg"])); i = int(v["case"]["id"])
    exs = real.get("example", []); exs = exs if isinstance(exs, list) else [exs]
    if "module" not in real: return False
    mt = tokenize(real["module"]); rt = {int(k[8:]): tokenize(val) for k, val in real.items() if k.startswith("resolve_")}
    for ex in exs:
        if ex == "ERR": continue
        if check_example(reg, i, tokenize(ex), mt, rt): return True
    return False
def coincident_unused_param(reg, i):
    """type i has a parameter that no field's recorded type name mentions (unused in the source) although its argument's
    id occurs inside some field's type: the generator, which recognises parameters by id, takes it for used in THIS
    instantiation, while the item emitted for the path comes from the first same-path entry"""
    import re
    t = reg[i]
    if t["def"][0] != "composite": return False
    fields = t["def"][1]
    for n, pid in t["params"]:
        if pid is None: continue
        if any(re.search(r"(?<![A-Za-z0-9_])%s(?![A-Za-z0-9_])" % re.escape(n), f.get("type_name") or "") for f in fields): continue
        if any(pid in _type_arguments_inside(reg, f["ty"]) for f in fields): return True
    return False
def _type_arguments_inside(reg, i):
    """ids the generator meets as *arguments* strictly inside the type expression of id i (elements of sequences, arrays,
    tuples, compact, and the generic arguments of path types - not the fields of named types, and not i itself: a field
    whose own id equals the parameter's is decided by its recorded type name, correctly)"""
    out = set(); work = [i]; seen = set()
    while work:
        j = work.pop()
        if j in seen or j >= len(reg): continue
        seen.add(j); d = reg[j]["def"]; k = d[0]
        if k == "sequence": nxt = [d[1]]
        elif k == "array": nxt = [d[2]]
        elif k == "tuple": nxt = list(d[1])
        elif k == "compact": nxt = [d[1]]
        elif k in ("composite", "variant"): nxt = [p for _, p in reg[j]["params"] if p is not None]
        else: nxt = []
        out.update(nxt); work += nxt
    return out
def classify(v):
    w = v["what"]
    if v.get("kind") != "lockstep": return v.get("kind", "other")
    import re
    m = re.search(r"\(type #(\d+)\): (\d+) field values, the generated item has (\d+) fields \(incl. the marker", w)
    if m and int(m.group(2)) + 1 == int(m.group(3)):
        try:
            if coincident_unused_param(regdsl.decode(bytes.fromhex(v["case"]["reg"])), int(m.group(1))): return "marker-of-coincident-parameter"
        except Exception: pass
    for k, name in (("does not carry the primitive's type u16", "u16-literal-is-ident-n"), ("marker field is called", "marker-field-name"), ("field values, the generated item has", "marker-arity"),
                    ("is a parenthesised expression, not a 1-tuple", "one-tuple-without-comma"), ("does not parse", "parse"), ("path", "path"), ("Compact(", "compact-wrapping"), ("literal", "literal"), ("elements for an array", "array-arity")):
        if k in w: return name
    return "lockstep-other"
if __name__ == "__main__":
    main(sys.modules[__name__])
