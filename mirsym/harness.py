"""Common driver for property checks: engine set-up from fresh MIR dumps, parallel path exploration,
witness / partition obligations, replay of counterexamples on the real build, known findings, evidence."""
import os, sys, time, json, re, subprocess, multiprocessing, traceback, hashlib, random
sys.setrecursionlimit(200000)
HERE = os.path.dirname(os.path.abspath(__file__))
VERIF = os.path.dirname(HERE)
sys.path.insert(0, HERE)
import z3
import mirdump
from mirparse import parse_mir
import engine as E
from engine import *
import models_std, models_tok, models_syn, models_desc, models_ex, models_more
from engine_fast import FastEngine

REPO = mirdump.REPO
NCPU = int(os.environ.get("VERIF_JOBS", "16"))

def load_engine(crates=("typegen", "description")):
    """parse fresh MIR dumps of the requested crates into one engine"""
    fns = {}; info = {"dump_s": 0.0}
    for c in crates:
        path, sh, dt = mirdump.dump(c)
        info["source_hash"] = sh; info["dump_s"] += dt
        for k, f in parse_mir(open(path).read()).items(): fns.setdefault(k, f)
    for c in ("typegen", "description"): E.scan_enums(os.path.join(REPO, c, "src")); E.scan_generic_fns(os.path.join(REPO, c, "src"))
    E.add_enum("Cached", ["Recursive", "Computed"])
    eng = FastEngine(fns, REPO + "/")
    info["functions_in_dump"] = len(fns)
    info["nightly"] = mirdump.NIGHTLY
    return eng, info

# ------------------------------------------------------------------------------------------------ families
class Family:
    """One bounded symbolic input family of a check.
    mk(eng) -> ctx builds the symbolic input (assumptions via eng.assume);
    run(eng, ctx) -> dict with keys: outcome (str, for witnesses), violations (list of dicts with 'what' and
    'case' = concrete replayable case), optional 'sample' (a printable instance), 'validate' (case for
    engine-vs-real differential validation with 'expect')."""
    def __init__(self, name, mk, run, witnesses=(), on_panic=None, precondition=None, hash_order="insertion", target_prefixes=None, limit=None, setup=None):
        self.name = name; self.mk = mk; self.run = run; self.witnesses = tuple(witnesses); self.on_panic = on_panic
        self.precondition = precondition; self.hash_order = hash_order; self.target_prefixes = target_prefixes
        self.partition = False      # discharge the partition obligation (explored paths cover the whole bounded input space) with z3 and cvc5
        self.limit = limit          # optional cap on explored paths per work item (reported as truncated in the evidence)
        self.setup = setup          # optional callable(eng) run before exploring (engine mode switches)

_G = {}
DEFAULT_PATH_CAP = int(os.environ.get("VERIF_PATH_CAP", "30000"))     # per work item; hitting it marks the family as truncated (evidence: exhaustive=false)
def _worker(job):
    fi, prefix = job
    eng = _G["eng"]; fam = _G["fams"][fi]
    eng.hash_order = fam.hash_order
    eng.on_panic = fam.on_panic
    if fam.setup: fam.setup(eng)
    eng.capture_pc = bool(fam.partition); eng.captured = []
    q0, d0, s0, st0 = eng.nqueries, eng.ndecisions, eng.solver_s, eng.nsteps
    try:
        res, dt = eng.explore(fam.mk, fam.run, prefix=prefix, limit=fam.limit or DEFAULT_PATH_CAP)
    except Unmodelled as e:
        return {"fi": fi, "error": "unmodelled callee: %s @ %s" % (e, " > ".join("%s:%s" % x for x in getattr(e, "mir_stack", [])[-4:]))}
    except Inconclusive as e:
        return {"fi": fi, "error": "inconclusive: %s" % e}
    except Exception as e:
        return {"fi": fi, "error": "engine error: %s\n%s\nMIR stack: %s" % (e, traceback.format_exc()[-1500:], getattr(e, "mir_stack", [])[-5:])}
    out = {"fi": fi, "paths": [], "pcs": list(eng.captured), "truncated": bool(len(res) >= (fam.limit or DEFAULT_PATH_CAP)), "queries": eng.nqueries - q0, "decisions": eng.ndecisions - d0, "solver_s": eng.solver_s - s0, "steps": eng.nsteps - st0}
    eng.reset_path(); out["max_path_steps"] = eng.max_path_steps_seen; eng.max_path_steps_seen = 0
    for kind, dec, r in res:
        if kind == "panic" and not isinstance(r, dict):
            r = {"outcome": "panic", "violations": [{"what": "panic: " + r, "case": None, "kind": "panic"}]}
        out["paths"].append((len(dec), r))
    return out

class Result:
    def __init__(self): self.paths = 0; self.queries = 0; self.decisions = 0; self.solver_s = 0.0; self.steps = 0
def explore_families(eng, fams, log=print, deadline=None):
    """explore every family on NCPU processes; returns (per-family summaries, violations, validate cases, error)"""
    _G["eng"] = eng; _G["fams"] = fams
    jobs = []
    t0 = time.time()
    for fi, fam in enumerate(fams):
        eng.hash_order = fam.hash_order; eng.on_panic = fam.on_panic
        if fam.setup: fam.setup(eng)
        tp = fam.target_prefixes if fam.target_prefixes is not None else (NCPU * 4 if len(fams) < NCPU * 2 else 1)
        if tp <= 1: jobs.append((fi, []))
        else:
            try:
                for p in eng.frontier(fam.mk, fam.run, target=tp): jobs.append((fi, p))
            except Unmodelled as e:
                return None, None, None, "unmodelled callee: %s @ %s" % (e, " > ".join("%s:%s" % x for x in getattr(e, "mir_stack", [])[-4:]))
    summ = [dict(name=f.name, paths=0, outcomes={}, queries=0, decisions=0, solver_s=0.0, steps=0, samples=[]) for f in fams]
    viol = []; validate = []
    ctx = multiprocessing.get_context("fork")
    with ctx.Pool(min(NCPU, max(1, len(jobs)))) as pool:
        for r in pool.imap_unordered(_worker, jobs, chunksize=1):
            if "error" in r:
                pool.terminate(); return None, None, None, "family %s: %s" % (fams[r["fi"]].name, r["error"])
            s = summ[r["fi"]]
            if r.get("pcs"): s.setdefault("pcs", []).extend(r["pcs"])
            if r.get("truncated"): s["truncated"] = True
            s["queries"] += r["queries"]; s["decisions"] += r["decisions"]; s["solver_s"] += r["solver_s"]; s["steps"] += r["steps"]; s["max_path_steps"] = max(s.get("max_path_steps", 0), r.get("max_path_steps", 0))
            for nd, pr in r["paths"]:
                s["paths"] += 1
                oc = pr.get("outcome", "ok")
                for o in (oc if isinstance(oc, (list, tuple)) else [oc]): s["outcomes"][o] = s["outcomes"].get(o, 0) + 1
                if pr.get("sample") is not None and len(s["samples"]) < 3: s["samples"].append(pr["sample"])
                for v in pr.get("violations", []): viol.append(dict(v, family=fams[r["fi"]].name))
                if pr.get("validate") is not None: validate.append(dict(pr["validate"], family=fams[r["fi"]].name))
                for rc in pr.get("realcheck", []): validate.append(dict(rc, family=fams[r["fi"]].name, _realcheck=True))
    return summ, viol, validate, None

def partition_obligation(name, pcs, workdir):
    """precondition and not OR(path conditions) must be unsatisfiable; decided by z3 (python API), /usr/bin/z3 and cvc5 on the exported SMT-LIB2"""
    t0 = time.time()
    pre = z3.parse_smt2_string(pcs[0][0])
    paths = [z3.And(*list(z3.parse_smt2_string(p))) if len(z3.parse_smt2_string(p)) else z3.BoolVal(True) for _, p in pcs]
    goal = z3.And(*(list(pre) + [z3.Not(z3.Or(*paths))]))
    s = z3.Solver(); s.add(goal); r = str(s.check())
    os.makedirs(workdir, exist_ok=True)
    fn = os.path.join(workdir, "partition_%s.smt2" % re.sub(r"[^A-Za-z0-9_.-]", "_", name))
    txt = s.to_smt2().replace("(set-info :status unsat)", "").replace("(set-info :status sat)", "")
    open(fn, "w").write("(set-logic ALL)\n" + txt)
    res = {"family": name, "paths": len(pcs), "z3_api": r}
    for tool, cmd in (("z3_4.8.12", ["/usr/bin/z3", fn]), ("cvc5", ["cvc5", "--lang", "smt2", fn])):
        try:
            p = subprocess.run(cmd, stdout=subprocess.PIPE, stderr=subprocess.STDOUT, timeout=300, text=True)
            out = p.stdout.strip().split("\n")
            res[tool] = "error" if any("(error" in l for l in out) else (out[0] if out else "?")
        except Exception as ex: res[tool] = "unavailable: %s" % type(ex).__name__
    res["s"] = round(time.time() - t0, 2)
    return res

# ------------------------------------------------------------------------------------------------ replay binary
REPLAY_DIR = os.path.join(VERIF, "replay")
def _replay_dirs():
    """(crate dir, target dir); for an alternative repository (VERIF_REPO, used for mutant runs in scratch
    worktrees) a copy of the replay crate with its path dependencies rewritten is kept under .work"""
    if REPO == "/repo": return REPLAY_DIR, os.path.join(mirdump.WORK, "target-replay")
    tag = hashlib.sha1(REPO.encode()).hexdigest()[:8]
    d = os.path.join(mirdump.WORK, "replay-alt-" + tag)
    os.makedirs(os.path.join(d, "src"), exist_ok=True)
    for f in ("Cargo.lock", "src/main.rs", "src/corpus.rs"):
        s = open(os.path.join(REPLAY_DIR, f)).read()
        if f.endswith("main.rs"): s = s.replace('"/repo/artifacts', '"%s/artifacts' % REPO)
        if not os.path.exists(os.path.join(d, f)) or open(os.path.join(d, f)).read() != s: open(os.path.join(d, f), "w").write(s)
    s = open(os.path.join(REPLAY_DIR, "Cargo.toml")).read().replace('path = "/repo/', 'path = "%s/' % REPO)
    if not os.path.exists(os.path.join(d, "Cargo.toml")) or open(os.path.join(d, "Cargo.toml")).read() != s: open(os.path.join(d, "Cargo.toml"), "w").write(s)
    return d, os.path.join(mirdump.WORK, "target-replay-alt-" + tag)
def build_replay(release=False):
    crate_dir, target_dir = _replay_dirs()
    env = dict(os.environ); env.update(CARGO_TARGET_DIR=target_dir, CARGO_NET_OFFLINE="true")
    env.pop("RUSTFLAGS", None)
    # the replay crate depends on /repo's crates by path; keep its lock file in step with /repo's
    lock_src = os.path.join(REPO, "Cargo.lock")
    cmd = ["cargo", "build", "--offline", "--quiet"] + (["--release"] if release else [])
    import fcntl
    os.makedirs(mirdump.WORK, exist_ok=True)
    with open(target_dir + ".lock", "w") as lk:
        fcntl.flock(lk, fcntl.LOCK_EX)
        p = subprocess.run(cmd, cwd=crate_dir, env=env, stdout=subprocess.PIPE, stderr=subprocess.PIPE)
    if p.returncode != 0: raise mirdump.DumpError("building the replay binary against %s failed:\n" % REPO + p.stderr.decode(errors="replace")[-3000:])
    return os.path.join(target_dir, "release" if release else "debug", "replay")

def esc(s): return s.encode("utf-8").hex()
def unesc(h): return bytes.fromhex(h).decode("utf-8")

def run_replay(cases, release=False, timeout=600):
    """cases: list of dicts {op:..., key: value(str)|[values]}; returns list of dict results (same order).
    Values are transported hex-encoded. A case that makes the real code panic yields {'panic': msg}."""
    if not cases: return []
    binp = build_replay(release)
    lines = []
    for i, c in enumerate(cases):
        lines.append("case %d" % i)
        for k, v in c.items():
            if k in ("family", "expect", "what", "note"): continue
            for x in (v if isinstance(v, list) else [v]):
                lines.append("%s %s" % (k, esc(x if isinstance(x, str) else str(x))))
        lines.append("end")
    p = subprocess.run([binp], input="\n".join(lines).encode() + b"\n", stdout=subprocess.PIPE, stderr=subprocess.PIPE, timeout=timeout)
    if p.returncode != 0:
        if len(cases) == 1:
            # the real code took the whole process down (stack overflow / abort cannot be caught by catch_unwind)
            return [{"panic": "the replay process died (exit status %s): %s" % (p.returncode, p.stderr.decode(errors="replace")[-300:].strip())}]
        out = []
        for c in cases: out += run_replay([c], release, timeout)
        return out
    out = []; cur = None
    for ln in p.stdout.decode().split("\n"):
        if ln.startswith("case "): cur = {}
        elif ln == "end": out.append(cur); cur = None
        elif cur is not None and ln:
            k, _, v = ln.partition(" ")
            val = unesc(v)
            if k in cur:
                if not isinstance(cur[k], list): cur[k] = [cur[k]]
                cur[k].append(val)
            else: cur[k] = val
    if len(out) != len(cases): raise mirdump.DumpError("replay returned %d results for %d cases" % (len(out), len(cases)))
    return out

# ------------------------------------------------------------------------------------------------ findings
def load_known(pid):
    p = os.path.join(VERIF, "known_findings.json")
    if not os.path.exists(p): return []
    return [f for f in json.load(open(p)).get("findings", []) if f.get("property") == pid and f.get("status") == "known"]

def write_evidence(pid, tier, seed, coverage, assumptions, wall, violations):
    evdir = os.environ.get("VERIF_EVIDENCE_DIR", os.path.join(VERIF, "evidence"))
    os.makedirs(evdir, exist_ok=True)
    ev = {"property_id": pid, "tier": tier, "seed": seed, "level": "model_checking", "coverage": coverage,
          "assumptions": assumptions, "wall_s": round(wall, 2), "violations": violations}
    p = os.path.join(evdir, pid + ".json")
    json.dump(ev, open(p + ".tmp", "w"), indent=1, default=str); os.replace(p + ".tmp", p)

def main(check):
    try: _main(check)
    except SystemExit: raise
    except BaseException as e:
        print("INCONCLUSIVE property=%s: internal error of the checker: %s\n%s" % (check.ID, e, traceback.format_exc()[-2500:])); sys.exit(2)

def _main(check):
    """check: module-like object with ID, CRATES, families(eng, tier, seed), confirm(violation, real_results),
    optional classify(violation) -> finding key, ASSUMPTIONS, BOUNDS, OUTSIDE, MODELS, FUNCTIONS."""
    import argparse
    ap = argparse.ArgumentParser(); ap.add_argument("--tier", default=os.environ.get("VERIF_TIER", "quick")); ap.add_argument("--replay")
    a = ap.parse_args()
    tier = a.tier if a.tier in ("quick", "thorough") else "quick"
    seed = int(os.environ.get("VERIF_SEED", "0"))
    pid = check.ID; t0 = time.time()
    def log(*x): print("[%s %6.1fs]" % (pid, time.time() - t0), *x, flush=True)
    try:
        eng, info = load_engine(check.CRATES)
    except mirdump.DumpError as e:
        print("INCONCLUSIVE property=%s: %s" % (pid, e)); sys.exit(2)
    log("MIR dumped (hash %s, %.1fs), %d functions" % (info["source_hash"], info["dump_s"], info["functions_in_dump"]))
    random.seed(seed)
    if a.replay:
        case = json.load(open(a.replay))
        res = run_replay([case["case"]])[0]
        print(json.dumps(res, indent=1)); ok = check.confirm(case, res)
        print("violation reproduced on the real build" if ok else "not reproduced"); sys.exit(1 if ok else 0)
    fams = check.families(eng, tier, seed)
    if os.environ.get("VERIF_ONLY"): fams = [f for f in fams if os.environ["VERIF_ONLY"] in f.name]
    log("%d families" % len(fams))
    summ, viol, validate, error = explore_families(eng, fams, log)
    if error:
        print("INCONCLUSIVE property=%s: %s" % (pid, error)); sys.exit(2)
    paths = sum(s["paths"] for s in summ)
    log("explored %d paths, %d solver queries, %d candidate violations" % (paths, sum(s["queries"] for s in summ), len(viol)))
    if os.environ.get("VERIF_DEBUG"):
        byc = {}
        for v in viol: byc.setdefault((check.classify(v) if hasattr(check, "classify") else v.get("family")), []).append(v)
        for k, vs in byc.items():
            print("  CLASS %s: %d candidates" % (k, len(vs)))
            for v in vs[:int(os.environ["VERIF_DEBUG"])]: print("     CAND", v.get("family"), v["what"][:int(os.environ.get("VERIF_DEBUG_W", "300"))])
    # partition obligations (the explored paths cover the bounded input space)
    partitions = []
    for f, s in zip(fams, summ):
        if f.partition and s.get("pcs"):
            pr = partition_obligation(f.name, s["pcs"], os.path.join(mirdump.WORK, "smt"))
            partitions.append(pr)
            verdicts = [pr[k] for k in ("z3_api", "z3_4.8.12", "cvc5") if not str(pr.get(k, "")).startswith("unavailable")]
            if any(v != "unsat" for v in verdicts):
                print("INCONCLUSIVE property=%s: partition obligation of family %s not discharged (explored paths do not provably cover the input space, or the solvers disagree): %s" % (pid, f.name, pr)); sys.exit(2)
    if partitions: log("partition obligations: %d families, z3 and cvc5 agree on unsat" % len(partitions))
    # witnesses (vacuity guard)
    missing = []
    for f, s in zip(fams, summ):
        for w in f.witnesses:
            if not s["outcomes"].get(w): missing.append("%s: outcome %r never reached" % (f.name, w))
        if s["paths"] == 0: missing.append("%s: no feasible path" % f.name)
    gw = getattr(check, "GLOBAL_WITNESSES", ())
    allout = {}
    for s in summ:
        for k, v in s["outcomes"].items(): allout[k] = allout.get(k, 0) + v
    for w in gw:
        if not allout.get(w): missing.append("global: outcome %r never reached" % w)
    # engine-vs-real differential validation on sampled concrete instances of explored paths
    K = getattr(check, "VALIDATE_K", {"quick": 40, "thorough": 200})[tier]
    realchecks = [c for c in validate if c.get("_realcheck")]; validate = [c for c in validate if not c.get("_realcheck")]
    rnd = random.Random(seed); validate.sort(key=lambda c: json.dumps(c, sort_keys=True, default=str))
    vsel = validate if len(validate) <= K else rnd.sample(validate, K)
    nvalid = 0; valfail = None
    try:
        real = run_replay(vsel)
    except mirdump.DumpError as e:
        print("INCONCLUSIVE property=%s: %s" % (pid, e)); sys.exit(2)
    for c, r in zip(vsel, real):
        exp = c["expect"]
        got = {k: r.get(k) for k in exp}
        if got != exp:
            dd = ""
            for kk in exp:
                a_, b_ = str(exp[kk]), str(got.get(kk))
                if a_ != b_:
                    j_ = next((x for x in range(min(len(a_), len(b_))) if a_[x] != b_[x]), min(len(a_), len(b_)))
                    dd = "\n  first difference in %r at %d: engine ...%s... real ...%s..." % (kk, j_, a_[max(0, j_-80):j_+80], b_[max(0, j_-80):j_+80]); break
            if valfail is None: valfail = dd + "\n" + "the MIR interpreter and the real build disagree on a sampled instance of family %s:\n  case=%s\n  engine=%s\n  real=%s" % (c["family"], str({k: v for k, v in c.items() if k != "expect"})[:1500], str(exp)[:1500], str(got)[:1500])
            continue
        nvalid += 1
    log("differential validation: %d sampled instances agree with the real build" % nvalid)
    # obligations that are decided on the real build itself (clauses whose subject is code outside the encoded crates)
    real_violations = []; nreal = 0
    if realchecks and hasattr(check, "real_ok"):
        KR = getattr(check, "REALCHECK_K", {"quick": 150, "thorough": 1000})[tier]
        seenrc = set(); uniq = []
        for c in sorted(realchecks, key=lambda c: json.dumps(c, sort_keys=True, default=str)):
            k_ = json.dumps({k: v for k, v in c.items() if k not in ("family", "_realcheck", "_must")}, sort_keys=True, default=str)
            if k_ not in seenrc: seenrc.add(k_); uniq.append(c)
        must = [c for c in uniq if c.get("_must")]; rest = [c for c in uniq if not c.get("_must")]
        sel = must + (rest if len(rest) <= KR else rnd.sample(rest, KR))
        try: rres = run_replay([{k: v for k, v in c.items() if k not in ("_realcheck", "_must")} for c in sel])
        except mirdump.DumpError as e:
            print("INCONCLUSIVE property=%s: %s" % (pid, e)); sys.exit(2)
        for c, r in zip(sel, rres):
            nreal += 1
            why = check.real_ok(c, r)
            if why: real_violations.append(({"what": why, "case": {k: v for k, v in c.items() if k not in ("family", "_realcheck", "_must")}, "family": c["family"], "kind": "real"}, r))
        log("real-build obligations: %d cases executed on the real build, %d failing" % (nreal, len(real_violations)))
    # confirm candidate violations on the real build, classify against known findings
    known = load_known(pid); confirmed = []; unconfirmed = []; known_hits = {}
    cases = []; seen = set()
    for v in viol:
        key = json.dumps(v.get("case"), sort_keys=True, default=str) + v["what"][:60]
        if key in seen: continue
        seen.add(key); cases.append(v)
    maxc = 400
    if len(cases) > maxc:
        # keep a diverse subset: by classification key first
        by = {}
        for v in cases: by.setdefault(check.classify(v) if hasattr(check, "classify") else v["what"][:40], []).append(v)
        cases = [v for k in by for v in by[k][:max(5, maxc // len(by))]]
    with_case = [v for v in cases if v.get("case") is not None]
    try:
        real = run_replay([v["case"] for v in with_case])
    except mirdump.DumpError as e:
        print("INCONCLUSIVE property=%s: %s" % (pid, e)); sys.exit(2)
    for v, r in zip(with_case, real):
        if check.confirm(v, r): confirmed.append((v, r))
        else: unconfirmed.append((v, r))
    confirmed += real_violations
    nocase = [v for v in cases if v.get("case") is None]
    new = []
    for v, r in confirmed:
        k = check.classify(v) if hasattr(check, "classify") else None
        kf = next((f for f in known if f["key"] == k), None)
        if kf is not None: known_hits.setdefault(kf["key"], []).append(v)
        else: new.append((v, r))
    for f in known:
        if f["key"] in known_hits:
            print("KNOWN-FINDING: property=%s %s (%d confirmed instances this run; e.g. %s)" % (pid, f["what"], len(known_hits[f["key"]]), known_hits[f["key"]][0]["what"][:200]))
    if valfail and not new:
        print("INCONCLUSIVE property=%s: %s" % (pid, valfail)); sys.exit(2)
    wall = time.time() - t0
    cov = {
        "states": paths, "transitions": sum(s["decisions"] for s in summ) + paths,
        "traces_validated_against_impl": nvalid + len(confirmed),
        "samples": [dict(family=s["name"], instance=x) for s in summ for x in s["samples"][:1]][:12] or [{"note": "no sample recorded"}],
        "families": [{k: s[k] for k in ("name", "paths", "outcomes", "queries", "decisions")} for s in summ][:200],
        "n_families": len(fams),
        "queries": sum(s["queries"] for s in summ), "solver_s": round(sum(s["solver_s"] for s in summ), 2),
        "mir_steps": sum(s["steps"] for s in summ),
        "max_mir_steps_on_one_path": max([s.get("max_path_steps", 0) for s in summ] + [0]),
        "functions_encoded": getattr(check, "FUNCTIONS", []), "models_used": getattr(check, "MODELS", []),
        "bounds": getattr(check, "BOUNDS", {}).get(tier, getattr(check, "BOUNDS", {})), "outside_bounds": getattr(check, "OUTSIDE", []),
        "witnesses": {k: allout[k] for k in sorted(allout)}, "partition_check": partitions,
        "source_hash": info["source_hash"], "mir_dump_s": round(info["dump_s"], 1), "nightly": info["nightly"],
        "real_build_obligations": nreal, "candidates": len(viol), "confirmed_on_real_build": len(confirmed), "not_reproduced": len(unconfirmed),
        "known_findings_hit": sorted(known_hits), "exhaustive": not any(s.get("truncated") for s in summ),
        "truncated_families": [s["name"] for s in summ if s.get("truncated")][:50],
        "explanation": "symbolic execution of rustc MIR (regenerated from /repo this run) with z3; every feasible path of every listed family explored; oracles discharged per path",
    }
    if unconfirmed or nocase:
        # a candidate the real build does not reproduce means the encoding is wrong somewhere: never report success
        write_evidence(pid, tier, seed, cov, getattr(check, "ASSUMPTIONS", []), wall, len(new))
        for v, r in unconfirmed[:5]: print("NOT-REPRODUCED: %s case=%s real=%s" % (v["what"][:300], json.dumps(v.get("case"), default=str)[:600], json.dumps(r)[:600]))
        for v in nocase[:5]: print("NO-REPLAY-CASE: family=%s %s" % (v.get("family"), v["what"][:600]))
        if not new:
            print("INCONCLUSIVE property=%s: %d candidate(s) not reproduced on the real build, %d without replayable case" % (pid, len(unconfirmed), len(nocase))); sys.exit(2)
    write_evidence(pid, tier, seed, cov, getattr(check, "ASSUMPTIONS", []), wall, len(new))
    if new:
        os.makedirs(os.path.join(mirdump.WORK, "cex"), exist_ok=True)
        d = os.environ.get("VERIF_CEX_DIR", os.path.join(VERIF, "counterexamples")); os.makedirs(d, exist_ok=True)
        shown = set()
        for v, r in new:
            k = (check.classify(v) if hasattr(check, "classify") else None) or v["what"][:50]
            if k in shown: continue
            shown.add(k)
            p = os.path.join(d, "%s_%s.json" % (pid, hashlib.sha1(json.dumps(v["case"], sort_keys=True, default=str).encode()).hexdigest()[:10]))
            json.dump({"property": pid, "what": v["what"], "family": v.get("family"), "class": k, "case": v["case"], "real_output": r}, open(p, "w"), indent=1, default=str)
            print("VIOLATION property=%s replay=%s" % (pid, p))
            print("  " + v["what"][:500])
        sys.exit(1)
    if missing:
        print("INCONCLUSIVE property=%s: vacuity guard: %s" % (pid, "; ".join(missing[:5]))); sys.exit(2)
    log("OK: %d paths, all obligations discharged (%d known finding(s) listed)" % (paths, len(known_hits)))
    sys.exit(0)
