"""Regenerate rustc MIR text for the crates of /repo (and two dependency crates) from the current working tree.

Dumps are cached under /verif/.work/mir/<hash of every input file>/, so a run on an unchanged tree re-uses the
dump of the previous run, and any edit to /repo's sources produces a fresh dump (the hash covers all .rs files,
the manifests and Cargo.lock). A dump that fails to build raises DumpError (the driver turns it into exit 2)."""
import hashlib, os, subprocess, sys, time

REPO = os.environ.get("VERIF_REPO", "/repo")
WORK = os.environ.get("VERIF_WORK", "/verif/.work")
NIGHTLY = "nightly-2026-08-21"
CRATES = {"typegen": ("scale-typegen", "typegen"), "description": ("scale-typegen-description", "description")}

class DumpError(Exception): pass

def source_hash(repo=REPO):
    h = hashlib.sha256()
    files = []
    for sub in ("typegen", "description"):
        for dp, dn, fn in os.walk(os.path.join(repo, sub)):
            dn[:] = [d for d in dn if d not in ("target", "tests")]
            for f in fn:
                if f.endswith((".rs", ".toml")): files.append(os.path.join(dp, f))
    files += [os.path.join(repo, "Cargo.toml"), os.path.join(repo, "Cargo.lock")]
    for p in sorted(files):
        h.update(p.encode()); h.update(b"\0")
        try: h.update(open(p, "rb").read())
        except OSError: pass
        h.update(b"\0")
    h.update(NIGHTLY.encode())
    return h.hexdigest()[:20]

def dump(which, repo=REPO, quiet=True):
    """returns (path of the MIR text for crate `which`, source hash, seconds spent dumping (0 if cached))"""
    pkg, sub = CRATES[which]
    sh = source_hash(repo)
    d = os.path.join(WORK, "mir", sh); os.makedirs(d, exist_ok=True)
    out = os.path.join(d, which + ".mir")
    if os.path.exists(out) and os.path.getsize(out) > 1000: return out, sh, 0.0
    t0 = time.time()
    tdir = os.path.join(WORK, "target-mir" if repo == "/repo" else "target-mir-alt-" + hashlib.sha1(repo.encode()).hexdigest()[:8])
    env = dict(os.environ); env.update(CARGO_TARGET_DIR=tdir, CARGO_NET_OFFLINE="true", RUSTUP_TOOLCHAIN=NIGHTLY)
    env.pop("RUSTFLAGS", None)
    cmd = ["cargo", "rustc", "--offline", "-p", pkg, "--lib", "--", "-Zunpretty=mir", "-C", "debug-assertions=off",
           "-C", "overflow-checks=on", "--cfg", 'mirsym_nonce="%s"' % sh, "-A", "unexpected_cfgs"]
    # a lock so that concurrently started checks do not dump twice
    import fcntl
    with open(tdir + ".lock", "w") as lk:
        fcntl.flock(lk, fcntl.LOCK_EX)
        if os.path.exists(out) and os.path.getsize(out) > 1000: return out, sh, 0.0
        p = subprocess.run(cmd, cwd=repo, env=env, stdout=subprocess.PIPE, stderr=subprocess.PIPE)
        if p.returncode != 0 or len(p.stdout) < 1000:
            raise DumpError("MIR dump of %s failed (exit %d):\n%s" % (pkg, p.returncode, p.stderr.decode(errors="replace")[-3000:]))
        tmp = out + ".tmp%d" % os.getpid()
        open(tmp, "wb").write(p.stdout); os.replace(tmp, out)
    # keep at most 6 cached dumps
    root = os.path.join(WORK, "mir")
    ds = sorted((os.path.getmtime(os.path.join(root, x)), x) for x in os.listdir(root) if os.path.isdir(os.path.join(root, x)))
    for _, x in ds[:-40]:
        import shutil; shutil.rmtree(os.path.join(root, x), ignore_errors=True)
    return out, sh, time.time() - t0

if __name__ == "__main__":
    for w in sys.argv[1:] or ["typegen", "description"]:
        print(dump(w))
