"""Spike 2: extra models for the description crate (RefCell, Peekable, anyhow, String building, formatter libs)."""
import re
from engine import *
from models_std import *
import models_std

class RefCellV:
    def __init__(self, v): self.cell = [v]; self.borrow = 0   # >0 shared count, -1 exclusive
class GuardV:
    def __init__(self, rc, excl): self.rc = rc; self.excl = excl; self.live = True
    def on_drop(self):
        if self.live:
            self.live = False
            if self.excl: self.rc.borrow = 0
            else: self.rc.borrow -= 1
class PeekableV(It):
    def __init__(self, it): self.it = it; self.peeked = None; self.has = False
    def peek(self, eng):
        if not self.has: self.peeked = self.it.next(eng); self.has = True
        return self.peeked
    def next(self, eng):
        if self.has: self.has = False; return self.peeked
        return self.it.next(eng)
class CharsIt(It):
    def __init__(self, s): self.chars = [Sc("char", ord(c)) for c in s]; self.pos = 0
    def next(self, eng):
        if self.pos < len(self.chars): self.pos += 1; return self.chars[self.pos - 1]
        return None
class PeekMoreV(It):
    def __init__(self, it): self.it = it; self.queue = []
    def next(self, eng):
        if self.queue:
            x = self.queue.pop(0); return x.f[0] if x.idx == 1 else None
        return self.it.next(eng)

@model(r"^RefCell::new$")
def _(eng, m, g, a): return RefCellV(a[0])
@model(r"^RefCell::borrow$")
def _(eng, m, g, a):
    rc = deref(a[0])
    if rc.borrow < 0: raise Panic("RefCell already mutably borrowed")
    rc.borrow += 1; return GuardV(rc, False)
@model(r"^RefCell::borrow_mut$")
def _(eng, m, g, a):
    rc = deref(a[0])
    if rc.borrow != 0: raise Panic("RefCell already borrowed")
    rc.borrow = -1; return GuardV(rc, True)
@model(r"^<(std::cell::)?(Ref|RefMut)<.*> as (Deref|DerefMut)>::(deref|deref_mut)$")
def _(eng, m, g, a): return Slot(deref(a[0]).rc.cell, 0)
@model(r"^<.* as Iterator>::peekable$")
def _(eng, m, g, a): return PeekableV(as_iter(eng, a[0]))
@model(r"^Peekable::peek$")
def _(eng, m, g, a):
    x = deref(a[0]).peek(eng)
    return none() if x is None else some(Slot([x], 0))
@model(r"^anyhow::__private::format_err$")
def _(eng, m, g, a): return Agg("anyhow::Error", [eng.call("format", [], [a[0]])])
@model(r"^anyhow::__private::must_use$")
def _(eng, m, g, a): return a[0]
@model(r"^anyhow::error::<impl anyhow::Error>::msg$")
def _(eng, m, g, a): return Agg("anyhow::Error", [a[0]])
@model(r"^std::string::String::push$|^String::push$")
def _(eng, m, g, a):
    s = deref(a[0]); c = a[1]
    s.p.append(chr(c.v) if not c.sym() else ("char", c)); return UNIT
@model(r"^std::string::String::push_str$|^String::push_str$")
def _(eng, m, g, a): deref(a[0]).p += deref(a[1]).p; return UNIT
@model(r"^std::string::String::new$")
def _(eng, m, g, a): return StrV()
@model(r"^std::string::String::is_empty$")
def _(eng, m, g, a): return B(all(isinstance(x, str) and x == "" for x in deref(a[0]).p))      # a symbolic piece (number, char) is at least one character
@model(r"^<(std::string::String|String) as ToOwned>::to_owned$|^<(std::string::String|String) as ToString>::to_string$|^<&str as Into<(std::string::)?String>>::into$")
def _(eng, m, g, a): return StrV(list(deref(a[0]).p))
@model(r"^std::vec::Vec::(new|len|push)$")
def _(eng, m, g, a): return eng.call("Vec::" + m.group(1), [], a)
@model(r"^slice::<impl \[.*\]>::join$")
def _(eng, m, g, a): return eng.call("core::slice::<impl [T]>::join", [], a)
@model(r"^Option::unwrap_or$")
def _(eng, m, g, a): return a[0].f[0] if a[0].idx == 1 else a[1]
class SymStr:
    """a &str whose characters are Sc("char") values (concrete or symbolic)"""
    def __init__(self, chars): self.chars = chars
class SymChars(It):
    def __init__(self, chars): self.chars = chars; self.pos = 0
    def next(self, eng):
        if self.pos < len(self.chars): self.pos += 1; return self.chars[self.pos - 1]
        return None
def str_chars(v):
    """list of Sc("char") for a StrV (pieces: str | ("char", Sc)) or SymStr"""
    v = deref(v)
    if isinstance(v, SymStr): return list(v.chars)
    out = []
    for p in v.p:
        if isinstance(p, str): out += [Sc("char", ord(c)) for c in p]
        elif isinstance(p, tuple) and p[0] == "char": out.append(p[1])
        else: raise Unmodelled("chars() of a string with symbolic piece %r" % (p,))
    return out
@model(r"^core::str::<impl str>::chars$")
def _(eng, m, g, a): return SymChars(str_chars(a[0]))
@model(r"^<.* as PeekMore>::peekmore$")
def _(eng, m, g, a): return PeekMoreV(a[0])
@model(r"^PeekMoreIterator::peek_amount$")
def _(eng, m, g, a):
    pm = deref(a[0]); k = a[1].v
    while len(pm.queue) < k:
        x = pm.it.next(eng); pm.queue.append(none() if x is None else some(x))
    return Slot([VecV(pm.queue[:k])], 0)
@model(r"^SmallVec::new$")
def _(eng, m, g, a): return VecV()
@model(r"^SmallVec::push$")
def _(eng, m, g, a): deref(a[0]).items.append(a[1]); return UNIT
@model(r"^SmallVec::pop$")
def _(eng, m, g, a):
    it = deref(a[0]).items; return some(it.pop()) if it else none()
@model(r"^<SmallVec<.*> as Deref>::deref$")
def _(eng, m, g, a): return a[0]
@model(r"^<(std::ops::)?Range<.*> as Iterator>::next$")
def _(eng, m, g, a):
    r = deref(a[0]); s, e = r.f
    if eng.branch(eng.binop("Lt", s, e)):
        r.f[0] = eng.binop("Add", s, Sc(s.ty, 1)); return some(s)
    return none()

@model(r"^PeekMoreIterator::(peek|peek_next|peek_nth)$")
def _(eng, m, g, a):
    pm = deref(a[0]); k = 0 if m.group(1) == "peek" else (a[1].v if m.group(1) == "peek_nth" else getattr(pm, "cursor", 0) + 1)
    if m.group(1) == "peek_next": pm.cursor = k
    while len(pm.queue) <= k:
        x = pm.it.next(eng); pm.queue.append(none() if x is None else some(x))
    q = pm.queue[k]
    return none() if q.idx == 0 else some(Slot(q.f, 0))

@model(r"^<SmallVec<.*> as (?:std::default::)?Default>::default$|^SmallVec::with_capacity$|^(?:smallvec::)?SmallVec::new_const$")
def _(eng, m, g, a): return VecV()
@model(r"^SmallVec::(len)$")
def _(eng, m, g, a): return Sc("usize", len(deref(a[0]).items))
@model(r"^SmallVec::(is_empty)$")
def _(eng, m, g, a): return B(not deref(a[0]).items)
@model(r"^SmallVec::(clear)$")
def _(eng, m, g, a): deref(a[0]).items[:] = []; return UNIT
@model(r"^SmallVec::(truncate)$")
def _(eng, m, g, a): del deref(a[0]).items[a[1].v:]; return UNIT
@model(r"^SmallVec::(iter|iter_mut)$")
def _(eng, m, g, a): return ListIt(deref(a[0]).items, True)
@model(r"^SmallVec::(as_slice|as_mut_slice)$|^<SmallVec<.*> as (?:std::ops::)?DerefMut>::deref_mut$|^<SmallVec<.*> as (?:std::convert::)?AsRef<\[.*\]>>::as_ref$")
def _(eng, m, g, a): return a[0]
@model(r"^<SmallVec<.*> as Extend<.*>>::extend$")
def _(eng, m, g, a): deref(a[0]).items.extend(drain(eng, as_iter(eng, a[1]))); return UNIT
@model(r"^SmallVec::(insert)$")
def _(eng, m, g, a): deref(a[0]).items.insert(a[1].v, a[2]); return UNIT
@model(r"^SmallVec::(remove)$")
def _(eng, m, g, a): return deref(a[0]).items.pop(a[1].v)

# wrappers whose Default is the Default of what they wrap
@model(r"^<(?:std::cell::)?(RefCell|Cell)<(.*)> as (?:std::default::)?Default>::default$")
def _(eng, m, g, a): return RefCellV(eng.call("<%s as Default>::default" % m.group(2), [], []))
@model(r"^<(?:std::option::|core::option::)?Option<.*> as (?:std::default::)?Default>::default$")
def _(eng, m, g, a): return none()
@model(r"^<(?:std::boxed::)?Box<(.*)> as (?:std::default::)?Default>::default$")
def _(eng, m, g, a): return eng.call("<%s as Default>::default" % m.group(1), [], [])
@model(r"^<(?:std::rc::)?Rc<(.*)> as (?:std::default::)?Default>::default$")
def _(eng, m, g, a): return eng.call("Rc::new", [], [eng.call("<%s as Default>::default" % m.group(1), [], [])])
@model(r"^<\(\) as (?:std::default::)?Default>::default$")
def _(eng, m, g, a): return UNIT
