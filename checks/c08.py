"""C08: derives and attributes reach exactly the right types."""
import os, sys
sys.path.insert(0, os.path.dirname(os.path.abspath(__file__)))
from gen_common import *
import c01

ID = "C08"
CRATES = ("typegen",)
FUNCTIONS = ["DerivesRegistry::{add_derives_for_all, add_attributes_for_all, add_derives_for, add_attributes_for, flatten_recursive_derives}", "derives::collect_type_ids", "FlatDerivesRegistry::{resolve, resolve_derives_for_type}",
             "Derives::{extend_from, insert_derive, to_tokens}", "CompositeIRKind::could_derive_as_compact", "TypePath::is_uint_up_to_u128", "TypeGenerator::{create_type_ir, add_as_compact_derive, generate_types_mod}", "utils::syn_type_path"] + c01.FUNCTIONS[-4:]
MODELS = c01.MODELS
ASSUMPTIONS = ["registries: corpus registries incl. cyclic graphs (rec, tree, mutual), generic definitions with several instantiations, nested modules; the set of recursive roots (1-2 paths), the specifically derived path and the attribute placement are chosen through the fork mechanism over ALL item paths of the registry",
               "expected sets come from an independent reachability closure over the registry (fields, variant fields, sequence/array/tuple/compact elements, type parameters; bit sequences not followed) taken over every entry carrying the root path",
               "bit-order marker types excluded as the quantifier says; 'unsigned integer field' = registry field whose type is a primitive u8..u128"]
BOUNDS = {"quick": {"recursive roots": "every ordered pair of item paths (registries <= 12 item paths), every single path otherwise", "specific": 1, "global": 1}, "thorough": {"recursive roots": "every ordered pair", "specific": "every path", "hash orders": "insertion + reversed"}}
OUTSIDE = ["more than two recursive roots", "derive content other than presence on the right items"]
GLOBAL_WITNESSES = ("Ok",)

def item_paths(reg):
    out = []
    for t in reg:
        if len(t["path"]) >= 2 and t["def"][0] in ("composite", "variant") and t["path"] not in out: out.append(t["path"])
    return out
def closure(reg, roots):
    seen = set(); work = list(roots)
    while work:
        i = work.pop()
        if i in seen: continue
        seen.add(i); t = reg[i]
        work += [p for _, p in t["params"] if p is not None]
        if t["def"][0] != "bitseq": work += refs(t)
    return seen
def expected(reg, glob_d, glob_a, spec, rec, compact_as):
    """path(tuple) -> (set of derive strings, set of attr strings) for every item path"""
    exp = {}
    for p in item_paths(reg): exp[tuple(p)] = (set(glob_d), set(glob_a))
    for p, (ds, as_) in spec.items():
        if tuple(p) in exp: exp[tuple(p)][0].update(ds); exp[tuple(p)][1].update(as_)
    for p, (ds, as_) in rec.items():
        roots = [i for i, t in enumerate(reg) if t["path"] == list(p)]
        for i in closure(reg, roots):
            q = tuple(reg[i]["path"])
            if q in exp: exp[q][0].update(ds); exp[q][1].update(as_)
    if compact_as:
        for p in item_paths(reg):
            t = next(t for t in reg if t["path"] == p)
            if t["def"][0] == "composite" and len(t["def"][1]) == 1:
                f = t["def"][1][0]; ft = reg[f["ty"]]
                is_param = any(pp == f["ty"] and f.get("type_name") == n for n, pp in t["params"] if pp is not None)
                if ft["def"][0] == "primitive" and ft["def"][1] in ("U8", "U16", "U32", "U64", "U128") and not is_param: exp[tuple(p)][0].add(compact_as)
    return exp
def norm(s): return s.replace(" ", "")
def observed(module):
    obs = {}
    for p, it in walk_items(module):
        ds = set(norm(d) for d in derive_list(it["attrs"]))
        others = set(norm(plain_tok_str(a)) for a in it["attrs"] if a and a[0][1] not in ("derive", "doc"))
        obs[p] = (ds, others)
    return obs
def compare(exp, obs):
    probs = []
    for p, (ds, as_) in exp.items():
        if p not in obs or p[-1] in ("Lsb0", "Msb0"): continue       # bit-order marker types are not counted (quantifier)
        od, oa = obs[p]
        if od != set(norm(d) for d in ds): probs.append("item %s derives %s, expected %s" % ("::".join(p), sorted(od), sorted(norm(d) for d in ds)))
        if oa != set(norm(a) for a in as_): probs.append("item %s has attributes %s, expected %s" % ("::".join(p), sorted(oa), sorted(norm(a) for a in as_)))
    return probs

def make_family(name, reg0, nroots, tier, hash_order="insertion", compact_as=None, with_global_derive=True):
    paths = item_paths(reg0)
    def mk(eng):
        roots = []
        for k in range(nroots):
            roots.append(eng.choose([(i, True) for i in range(len(paths))]))
        spec = eng.choose([(i, True) for i in (range(len(paths)) if tier == "thorough" else [0, len(paths) - 1])])
        return {"roots": roots, "spec": spec}
    def run(eng, ctx):
        d = (["derive_all Global"] if with_global_derive else []) + ["attrtok_all allow(g)"]
        rec = {}; specd = {}
        for k, r in enumerate(ctx["roots"]):
            p = "::".join(paths[r])
            d.append("derive_rec %s => Rec%d" % (p, k)); rec.setdefault(tuple(paths[r]), (set(), set()))[0].add("Rec%d" % k)
            if k == 0: d.append("attrtok_rec %s => rattr(%d)" % (p, k)); rec[tuple(paths[r])][1].add("rattr(%d)" % k)
        sp = "::".join(paths[ctx["spec"]])
        if with_global_derive: d += ["derive_for %s => Spec" % sp, "attrtok_for %s => sattr" % sp]; specd[tuple(paths[ctx["spec"]])] = ({"Spec"}, {"sattr"})
        else:
            d += ["attrtok_for %s => sattr" % sp]; specd[tuple(paths[ctx["spec"]])] = (set(), {"sattr"})
            # attribute-only configuration: recursive registrations carry attributes only
            d = [x.replace("derive_rec", "attrtok_rec").replace("=> Rec", "=> recattr") if x.startswith("derive_rec") else x for x in d]
            for k_, v_ in rec.items(): v_[1].update("recattr%s" % x[3:] for x in v_[0]); v_[0].clear()
        if compact_as: d.append("compact_as_path " + compact_as)
        st = Settings(["compact_path ::c::Compact", "bits_path ::b::Bits"] + d)
        out, regv, s = generate(eng, regdsl._clone(reg0), st)
        case = replay_gen_case(reg0, st)
        res = {"violations": []}
        if out["result"] != "Ok":
            res["outcome"] = "Err:" + out["err"][0]
            if out["err"][0] != "DuplicateTypePath": res["violations"].append({"what": "generation failed: %s" % (out["err"],), "case": case, "kind": "err"})
            return res
        res["outcome"] = "Ok"
        name, module = parse_root(out["tokens"])
        exp = expected(reg0, {"Global"} if with_global_derive else set(), {"allow(g)"}, specd, rec, norm(compact_as) if compact_as else None)
        for p in compare(exp, observed(module)):
            res["violations"].append({"what": "%s | recursive roots %s, specific %s | %s" % (p, [paths[r][-1] for r in ctx["roots"]], paths[ctx["spec"]][-1], "; ".join(describe(reg0, 8))), "case": case, "kind": "sets",
                                      "ctx": {"glob": with_global_derive, "rec": {"::".join(k): [sorted(v[0]), sorted(v[1])] for k, v in rec.items()}, "spec": {"::".join(k): [sorted(v[0]), sorted(v[1])] for k, v in specd.items()}, "compact_as": compact_as}})
        if hash(tuple(eng.decisions)) % 5 == 0: res["validate"] = dict(case, expect={"result": "Ok", "tokens": plain_tok_str(out["tokens"])})
        if hash(tuple(eng.decisions)) % 11 == 0: res["sample"] = {"registry": describe(reg0, 5), "settings": d}
        return res
    return Family(name, mk, run, hash_order=hash_order, target_prefixes=32)

def families(eng, tier, seed):
    C = corpus(); fams = []
    for n in ("reach", "rec", "tree", "mutual", "generics", "modules", "enum", "containers", "compact", "phantom", "collections", "bits_generic", "two_roles"):
        r = C[n]; np_ = len(item_paths(r))
        nroots = 2 if (np_ <= 12 or tier == "thorough") else 1
        fams.append(make_family("derives-%s" % n, r, nroots, tier))
        if n in ("reach", "rec", "enum", "generics") or tier == "thorough": fams.append(make_family("attrsonly-%s" % n, r, 1, tier, with_global_derive=False))
        if tier == "thorough": fams.append(make_family("derives-%s-revhash" % n, r, nroots, tier, hash_order="reversed"))
    for ca in ("::parity_scale_codec::CompactAs", "codec::CompactAs"):
        for n in ("compact_as", "single", "compact", "tup"):
            fams.append(make_family("compactas-%s-%s" % (n, ca.split("::")[0] or "abs"), C[n], 1, tier, compact_as=ca))
    return fams

def confirm(v, real):
    if "panic" in real: return True
    if v["kind"] == "err": return real.get("result") == "Err" and real.get("err_variant") != "DuplicateTypePath"
    if real.get("result") != "Ok": return False
    reg = regdsl.decode(bytes.fromhex(v["case"]["reg"])); c = v["ctx"]
    name, module = parse_root(tokenize(real["tokens"]))
    rec = {tuple(k.split("::")): (set(a), set(b)) for k, (a, b) in c["rec"].items()}
    spec = {tuple(k.split("::")): (set(a), set(b)) for k, (a, b) in c["spec"].items()}
    exp = expected(reg, {"Global"} if c.get("glob", True) else set(), {"allow(g)"}, spec, rec, norm(c["compact_as"]) if c["compact_as"] else None)
    return bool(compare(exp, observed(module)))
def classify(v):
    w = v["what"]
    if "CompactAs" in w: return "compact-as"
    if "attributes" in w.split("|")[0]: return "attributes"
    fam = v.get("family", "")
    return "derive-set:" + fam
if __name__ == "__main__":
    main(sys.modules[__name__])
