"""C13: type descriptions are faithful to the registry and always terminate."""
import os, sys
sys.path.insert(0, os.path.dirname(os.path.abspath(__file__)))
from gen_common import *
from regdsl import prim, tup, seq, arr, cpt, bits, comp, enum, var, fld
from oracles.descr import check_description, flatten
import c01, c02, c15

ID = "C13"
CRATES = ("description",)
FUNCTIONS = ["description::{type_description (+ return_type_name, return_type_name_on_cache_hit), ty_description, type_name_with_type_params, type_def_type_description, tuple_type_description, primitive_type_description, variant_type_def_type_description, variant_type_description, fields_type_description, field_type_description}",
             "transformer::Transformer::{new, resolve, types}", "formatting::format_type_description (for the formatted clause)"]
MODELS = ["RefCell (borrow flags released on MIR drop)", "HashMap<u32, Cached<String>>", "fn-pointer policies", "format!/String/Peekable/slice iterators", "anyhow!", "scale_info::{Path::ident, PortableRegistry::resolve}", "peekmore/SmallVec (formatter)"]
ASSUMPTIONS = ["registries: corpus registries, a hand-built registry of generic types whose arguments are 1-tuples / unit / nested tuples / containers of them / compact / bit sequences (each visited twice), and, for every field of every item, retargets to every other admissible entry plus Box<Self> and Vec<Self> self references (cyclic graphs through containers and generics), array lengths symbolic",
               "the oracle is an independent lockstep reader of the description grammar (oracles/descr.py) that walks the registry; a field is boxed iff its recorded type name mentions Box at an identifier boundary",
               "recursion budget: more than 2000 nested interpreter frames counts as non-termination"]
BOUNDS = {"quick": {"ids": "every id of every corpus registry", "retargets": "<= 4 per field + 2 self references"}, "thorough": {"retargets": "all admissible"}}
OUTSIDE = ["registries beyond the corpus-derived families"]
GLOBAL_WITNESSES = ("Ok",)

def describe_id(eng, regv, i, fmt):
    r = eng.call("type_description", [], [Sc("u32", i), Slot([regv], 0), B(fmt)])
    if r.idx == 1: return ("Err", None)
    return ("Ok", deref(r.f[0]).p)
def pieces_text(pieces, m):
    out = ""
    for p in pieces:
        if isinstance(p, str): out += p
        elif p[0] == "int": out += str(regdsl._cv(p[1], m) if m is not None else p[1].v)
        elif p[0] == "char": out += chr(regdsl._cv(p[1], m))
    return out
def nows(s): return "".join(c for c in s if not c15.is_ws_int(ord(c)))

def make_family(name, reg0, ids, mutate=None, symbolic=True):
    def mk(eng):
        reg = symbolize_leaves(eng, reg0) if symbolic else regdsl._clone(reg0)
        if mutate: mutate(eng, reg)
        return reg
    def run(eng, reg):
        res = {"violations": [], "outcome": "Ok"}
        m = eng.model(); creg = concretize(reg, m)
        regv = to_engine(reg)
        for i in (ids if ids is not None else range(len(reg))):
            if i >= len(reg): continue
            st, pieces = describe_id(eng, regv, i, False)
            case = {"op": "describe", "reg": regdsl.encode(creg).hex(), "id": str(i), "format": "0"}
            if st == "Err":
                res["violations"].append({"what": "type_description(%d) returns an error | %s" % (i, "; ".join(describe(creg, 8))), "case": case, "kind": "err"}); continue
            probs, eqs = check_description(reg, i, pieces)
            for p in probs: res["violations"].append({"what": "%s | got %r | %s" % (p, pieces_text(pieces, m)[:300], "; ".join(describe(creg, 8))), "case": case, "kind": "lockstep"})
            for got, want in eqs:
                e = leaf_eq(got, want)
                if e is True or (e is not False and eng.holds(e)): continue
                mm = eng.model(z3.Not(e)) if e is not False else m
                res["violations"].append({"what": "array length in the description differs from the registry", "case": dict(case, reg=regdsl.encode(concretize(reg, mm)).hex()), "kind": "lockstep"})
            if i % 3 == 0 or len(reg) < 8: res["validate"] = dict(case, expect={"ok": pieces_text(pieces, m)})
        # formatted == unformatted up to whitespace (on the concrete instance of this path)
        cregv = to_engine(creg)
        for i in (ids if ids is not None else range(len(creg))):
            if i >= len(creg) or (len(creg) > 12 and i % 4): continue
            a = describe_id(eng, cregv, i, False); b = describe_id(eng, cregv, i, True)
            if a[0] != "Ok" or b[0] != "Ok": continue
            ta, tb = pieces_text(a[1], m), pieces_text(b[1], m)
            if nows(ta) != nows(tb):
                res["violations"].append({"what": "formatted description differs from the unformatted one beyond whitespace for id %d" % i, "case": {"op": "describe", "reg": regdsl.encode(creg).hex(), "id": str(i), "format": "1"}, "kind": "format"})
        res["sample"] = {"registry": describe(creg, 4)}
        return res
    def on_panic(eng, reg, msg):
        try: creg = concretize(reg, eng.model()); case = {"op": "describe_all", "reg": regdsl.encode(creg).hex()}
        except Exception: case = None
        return {"outcome": "panic", "violations": [{"what": "type_description panics / does not terminate: %s" % msg, "case": case, "kind": "panic"}]}
    return Family(name, mk, run, target_prefixes=1, on_panic=on_panic, limit=600)    # no corpus family has more than ~150 paths on a correct tree; a cap keeps a check of a broken tree (e.g. one that sorts symbolic indices) from exploding

def tuple_args_registry():
    """named generic types whose arguments are 1-tuples, the unit tuple, nested tuples and containers of them: the *name*
    form (type_name_with_type_params) of every shape, also on the second visit of an id"""
    W = lambda n, p: comp(["m", n], [fld("inner", p, "T")], params=[("T", p)])
    return [prim("U8"), tup([0]), tup([]), tup([0, 1]), seq(1), arr(2, 1), tup([1]), cpt(0), bits(0, 0),
            W("W1", 1), W("W0", 2), W("W2", 3), W("WV", 4), W("WA", 5), W("WT", 6), W("WC", 7), W("WB", 8),
            comp(["m", "Holder"], [fld("a", 9, "W1<(u8,)>"), fld("a2", 9, "W1<(u8,)>"), fld("b", 10, "W0<()>"), fld("c", 11, "W2<(u8,(u8,))>"), fld("d", 12, "WV<Vec<(u8,)>>"),
                                   fld("e", 13, "WA<[(u8,);2]>"), fld("f", 14, "WT<((u8,),)>"), fld("g", 15, "WC<Compact<u8>>"), fld("h", 16, "WB<BitVec>"), fld("h2", 16, "WB<BitVec>")]),
            enum(["m", "E"], [var("A", [fld(None, 9, "W1<(u8,)>"), fld(None, 6, "((u8,),)")], 0), var("B", [fld("x", 14, "WT"), fld("y", 14, "WT")], 1)], params=[("T", 6), ("U", 2)])]
def families(eng, tier, seed):
    C = corpus(); fams = []; rnd = random.Random(seed)
    for n, r in C.items(): fams.append(make_family("corpus-" + n, r, None))
    fams.append(make_family("names-with-tuple-arguments", tuple_args_registry(), None))
    # closed sub-registries of real chain metadata (concrete)
    P = polkadot(); roots = user_ids(P); rnd2 = random.Random(seed + 3); rnd2.shuffle(roots); k = 0
    for r0 in roots:
        sub, _ = restrict(P, [r0])
        if 6 <= len(sub) <= (60 if tier == "quick" else 300):
            fams.append(make_family("polkadot-closure-of-%d" % r0, sub, None, symbolic=False)); k += 1
        if k >= (5 if tier == "quick" else 40): break
    for n, r in C.items():
        if len(r) > 20 and tier == "quick": continue
        for ti, vi, fi, f in c02.retarget_sites(r):
            tg = [j for j in range(len(r)) if j != f["ty"] and ti not in c01.by_value_reach(r, j)]
            if tier == "quick": rnd.shuffle(tg); tg = sorted(tg[:3])
            def mut(eng, reg, ti=ti, vi=vi, fi=fi, tg=tg, r=r):
                t = reg[ti]; fl = t["def"][1][fi] if t["def"][0] == "composite" else t["def"][1][vi]["fields"][fi]
                kind = eng.choose([(("to", j), True) for j in tg] + [(("boxself", 0), True), (("vecself", 0), True)])
                if kind[0] == "to": fl["ty"] = kind[1]; fl["type_name"] = c01.src_name(r, kind[1])
                elif kind[0] == "boxself": fl["ty"] = ti; fl["type_name"] = "Box<Self>"
                else: reg.append(seq(ti)); fl["ty"] = len(reg) - 1; fl["type_name"] = "Vec<Self>"
            fams.append(make_family("retarget-%s-%d.%s.%d" % (n, ti, vi, fi), r, [0, ti], mutate=mut, symbolic=False))
    return fams

def confirm(v, real):
    if "panic" in real: return True
    k = v["kind"]
    if k == "panic": return False
    reg = regdsl.decode(bytes.fromhex(v["case"]["reg"])); i = int(v["case"]["id"])
    if k == "err": return "err" in real
    if "ok" not in real: return False
    if k == "lockstep":
        probs, eqs = check_description(reg, i, [real["ok"]])
        return bool(probs) or any(leaf_eq(a, b) is not True for a, b in eqs)
    if k == "format":
        r2 = run_replay([dict(v["case"], format="0")])[0]
        return "ok" in r2 and nows(r2["ok"]) != nows(real["ok"])
    return False
def classify(v):
    w = v["what"]
    if v["kind"] == "lockstep" and "expected 'Box<'" in w: return "box"
    if v["kind"] == "lockstep" and ("MyBox" in w.split("|")[0] or ("found" in w and "Box<" in w.split("found")[1][:12])): return "box-substring"
    return v["kind"]
if __name__ == "__main__":
    main(sys.modules[__name__])
