"""C12: example SCALE values are valid instances of their type."""
import os, sys
sys.path.insert(0, os.path.dirname(os.path.abspath(__file__)))
from gen_common import *
from oracles.value import conforms, cyclic_or_empty
from models_ex import canon
import c01, c02

ID = "C12"
CRATES = ("description", "typegen")
FUNCTIONS = ["type_example::scale_value::{example_from_seed (+ error_on_recurse, compute_another_example), ty_example, primitive_type_def_example, fields_type_example}", "transformer::Transformer::{new, resolve, state}"]
MODELS = ["A-rng: ChaCha8Rng::seed_from_u64 / Rng::gen / gen_range / SliceRandom::choose - draw k of a seeded generator is an uninterpreted value of the drawn type (variant, char and string choices and the bit-sequence length fork); rand::random / thread_rng are fresh on every call",
          "exact ChaCha8 + rand 0.8.5 sampling re-implementation for differential validation on concrete seeds", "scale_value::Value constructors as plain data", "RefCell, HashMap, iterators, anyhow!"]
ASSUMPTIONS = ["registries: corpus registries (compact wraps unsigned integers or single-field wrappers of them) and retargeted/self-referential variants; every id",
               "structural conformance (oracles/value.py) is the harness's model of what scale-encode accepts; a candidate is reported only after the real encode_as_type/decode_as_type failed on the concrete registry for some seed in 0..255",
               "the real encoder/decoder are exercised in replay only (round trip, all input consumed, equal value)"]
BOUNDS = {"quick": {"array lengths": "the corpus lengths plus 0, 1, 255, 256, 257 (u8 elements) and 65536 (unit elements); thorough adds 2, 127, 128, 511, 512, 32767, 32768, 65535, 65537, 131072", "ids": "every id of the corpus registries and of a hand-built registry of enums with sparse / descending / high codec indices", "paths per (registry, id)": "all draw sequences, capped at 150 (cap hits are listed as truncated)", "validation seeds": "3 per sampled id"}, "thorough": {"paths per (registry, id)": "capped at 600"}}
OUTSIDE = ["256-bit integers only structurally", "seeds: every draw is an arbitrary value of its type, so all seeds are covered up to the assumption A-rng"]
GLOBAL_WITNESSES = ("value", "error")

def sym(eng): eng.rng_mode = "symbolic"; eng.max_depth = 250      # legitimate nesting is linear in the registry size (<= 40 entries, ~6 frames per level)
def canon_sym(v):
    """structural rendering with z3 terms for symbolic leaves"""
    v = deref(v); vd = v.f[0]
    if vd.name == "Composite":
        c = deref(vd.f[0]); items = deref(c.f[0]).items
        if c.name == "Named": return "N{" + ",".join(deref(deref(p).f[0]).concrete() + ":" + canon_sym(deref(p).f[1]) for p in items) + "}"
        return "U(" + ",".join(canon_sym(x) for x in items) + ")"
    if vd.name == "Variant":
        var = deref(vd.f[0]); return "V[%s %s]" % (deref(var.f[0]).concrete(), canon_sym(Agg("Value", [En("ValueDef", 0, "Composite", [var.f[1]]), UNIT])))
    if vd.name == "BitSequence": return "B<" + ",".join(str(b.v) for b in deref(vd.f[0]).items) + ">"
    p = deref(vd.f[0]); x = p.f[0]
    if p.name in ("U256", "I256"): return p.name + "[" + ",".join(str(b.v) for b in deref(x).items) + "]"
    if p.name == "String": return "str:" + "".join(q if isinstance(q, str) else str(q) for q in deref(x).p)
    return "%s:%s" % (p.name, x.v if isinstance(x.v, (int, bool)) else x.v.sexpr())

def make_family(name, reg0, i, limit, mutate=None):
    def mk(eng):
        reg = regdsl._clone(reg0)
        if mutate: mutate(eng, reg)
        return reg
    def run(eng, reg):
        regv = to_engine(reg); res = {"violations": []}
        case = {"op": "scale_example", "reg": regdsl.encode(reg).hex(), "id": str(i), "seed": "0", "nseeds": "256"}
        r1 = eng.call("scale_value::example_from_seed", [], [Sc("u32", i), Slot([regv], 0), Sc("u64", 7)])
        decisions_after_first = len(eng.decisions)
        r2 = eng.call("scale_value::example_from_seed", [], [Sc("u32", i), Slot([regv], 0), Sc("u64", 7)])
        if r1.idx != r2.idx or (r1.idx == 0 and canon_sym(r1.f[0]) != canon_sym(r2.f[0])):
            res["violations"].append({"what": "two executions with the same seed give different results for id %d: %s vs %s" % (i, canon_sym(r1.f[0])[:150] if r1.idx == 0 else "Err", canon_sym(r2.f[0])[:150] if r2.idx == 0 else "Err"), "case": case, "kind": "determinism"})
        if r1.idx == 1:
            res["outcome"] = "error"
            if not cyclic_or_empty(reg, i):
                res["violations"].append({"what": "no value for id %d although its types contain no cycle and no empty enum | %s" % (i, "; ".join(describe(reg, 8))), "case": dict(case, nseeds="8"), "kind": "no-value"})
            return res
        res["outcome"] = "value"
        conds = []
        for p in conforms(deref, r1.f[0], reg, i, conds):
            res["violations"].append({"what": "example for id %d is not an instance of its type: %s | value %s | %s" % (i, p, canon_sym(r1.f[0])[:200], "; ".join(describe(reg, 8))), "case": case, "kind": "conformance"})
        for what, c in conds:
            if not eng.holds(c): res["violations"].append({"what": "example for id %d: '%s' can be violated | value %s" % (i, what, canon_sym(r1.f[0])[:200]), "case": case, "kind": "conformance"})
        if hash(tuple(eng.decisions)) % 29 == 0: res["sample"] = {"id": i, "value": canon_sym(r1.f[0])[:200]}
        return res
    def on_panic(eng, reg, msg):
        return {"outcome": "panic", "violations": [{"what": "example generation panics / does not terminate for id %d: %s" % (i, msg), "case": {"op": "scale_example", "reg": regdsl.encode(reg).hex(), "id": str(i), "seed": "0", "nseeds": "512"}, "kind": "panic"}]}
    return Family(name, mk, run, target_prefixes=1, on_panic=on_panic, limit=limit, setup=sym)

def exact_family(name, reg0, ids, seeds):
    """differential validation of the interpreter (exact RNG) against the real build; also the round trip on the real build"""
    def setup(eng): eng.rng_mode = "exact"
    def mk(eng): return eng.choose([(i, True) for i in ids]), eng.choose([(s, True) for s in seeds])
    def run(eng, ctx):
        i, seed = ctx
        regv = to_engine(reg0)
        r = eng.call("scale_value::example_from_seed", [], [Sc("u32", i), Slot([regv], 0), Sc("u64", seed)])
        try:
            if r.idx == 0: out = []; canon(r.f[0], out); got = "".join(out)
            else: got = "ERR"
        except Exception:
            return {"outcome": "exact", "violations": []}       # the value depends on a draw that is not tied to the seed: nothing to compare (the symbolic families judge determinism)
        case = {"op": "scale_example", "reg": regdsl.encode(reg0).hex(), "id": str(i), "seed": str(seed), "nseeds": "1"}
        return {"outcome": "exact", "violations": [], "validate": dict(case, expect={"value": got}),
                "realcheck": [{"op": "scale_example", "reg": regdsl.encode(reg0).hex(), "id": str(i), "seed": str(seed), "nseeds": "24", "_must": reg0[i]["def"] == ("primitive", "Char")}]}
    def on_panic(eng, ctx, msg):
        i, seed = ctx
        return {"outcome": "panic", "violations": [{"what": "example generation panics / does not terminate for id %d, seed %d: %s" % (i, seed, msg), "kind": "panic",
                                                    "case": {"op": "scale_example", "reg": regdsl.encode(reg0).hex(), "id": str(i), "seed": str(seed), "nseeds": "1"}}]}
    return Family(name, mk, run, target_prefixes=16, setup=setup, on_panic=on_panic)

BOUNDARY_LENS = {"quick": (65536, 0, 1, 255, 256, 257), "thorough": (131072, 65537, 65536, 65535, 32768, 32767, 0, 1, 2, 127, 128, 255, 256, 257, 511, 512)}
def boundary_registry(n):
    """[u8; n] for small n; for large n the element is the unit type (no draws, the loop count is what matters), also
    below a struct and a Vec"""
    el = 0 if n <= 600 else 1
    return [prim("U8"), tup([]), arr(n, el), comp(["m", "Holds"], [fld("a", 2, "[T; N]"), fld("b", 0, "u8")]), seq(2)]
def sparse_registry():
    """enums whose codec indices are not 0..n-1 (`#[codec(index = N)]`): position and index must not be confused"""
    return [prim("U8"),
            enum(["m", "Sparse"], [var("A", [], 0), var("B", [fld(None, 0, "u8")], 4), var("C", [fld("x", 0, "u8")], 9)]),
            enum(["m", "One"], [var("Only", [fld("x", 0, "u8")], 7)]),
            enum(["m", "Desc"], [var("Z", [], 3), var("Y", [fld(None, 0, "u8")], 1)]),
            enum(["m", "High"], [var("P", [], 254), var("Q", [], 255), var("R", [], 1)]),
            comp(["m", "Holds"], [fld("a", 1, "Sparse"), fld("b", 2, "One"), fld("c", 3, "Desc"), fld("d", 4, "High")])]
def families(eng, tier, seed):
    C = corpus(); fams = []; limit = 150 if tier == "quick" else 600; rnd = random.Random(seed)
    sp = sparse_registry()
    for i in range(1, len(sp)): fams.append(make_family("sparse-index-%d" % i, sp, i, limit))
    fams.append(exact_family("exact-sparse-index", sp, list(range(1, len(sp))), [seed * 3 + 1, 42, 7, 8, 9]))
    # array lengths at the integer-width boundaries (a length is a u32 in the registry; casts/truncations show here)
    for n in BOUNDARY_LENS[tier]:
        r = boundary_registry(n)
        fams.append(make_family("array-len-%d" % n, r, 2, limit))
        if n <= 600 or tier == "thorough":
            fams.append(make_family("array-len-%d-in-struct" % n, r, 3, limit)); fams.append(exact_family("exact-array-len-%d" % n, r, [2, 3], [42]))
    for n, r in C.items():
        if n in ("bits_generic",) and False: continue
        for i in range(len(r)): fams.append(make_family("example-%s-%d" % (n, i), r, i, limit))
        ids = list(range(len(r))); rnd.shuffle(ids)
        chars = [i for i, t in enumerate(r) if t["def"] == ("primitive", "Char")]      # always exercised: the known char finding must show up on every run
        fams.append(exact_family("exact-%s" % n, r, sorted(set((ids[:6] if tier == "quick" else ids[:20]) + chars)), [seed * 3 + 1, 42, 7]))
    for n in ("rec", "tree", "mutual", "enum", "tup", "containers"):
        r = C[n]
        for ti, vi, fi, f in c02.retarget_sites(r):
            def mut(eng, reg, ti=ti, vi=vi, fi=fi):
                t = reg[ti]; fl = t["def"][1][fi] if t["def"][0] == "composite" else t["def"][1][vi]["fields"][fi]
                kind = eng.choose([("boxself", True), ("vecself", True), ("optself", True)])
                if kind == "boxself": fl["ty"] = ti; fl["type_name"] = "Box<Self>"
                elif kind == "vecself": reg.append(seq(ti)); fl["ty"] = len(reg) - 1; fl["type_name"] = "Vec<Self>"
                else:
                    reg.append(enum(["Option"], [var("None", [], 0), var("Some", [fld(None, ti, "T")], 1)], params=[("T", ti)])); fl["ty"] = len(reg) - 1; fl["type_name"] = "Option<Box<Self>>"
            fams.append(make_family("selfref-%s-%d.%s.%d" % (n, ti, vi, fi), r, 0, limit, mutate=mut))
    return fams

VALIDATE_K = {"quick": 80, "thorough": 400}
def real_ok(case, real):
    """round trip on the real build: encode_as_type succeeds, decode consumes all input and gives an equal value, same seed = same value"""
    if "panic" in real: return "example generation / round trip panics on the real build: %s" % real["panic"][:200]
    if "fail" in real:
        reg = regdsl.decode(bytes.fromhex(case["reg"]))
        return "real round trip fails for id %s (%s): %s" % (case["id"], reg[int(case["id"])]["def"][0], real["fail"][:300])
    return None
def confirm(v, real):
    if "panic" in real: return True
    k = v["kind"]
    if k == "panic": return False
    if k == "no-value": return "errseed" in real
    return "fail" in real
def classify(v):
    if v["kind"] == "real":
        if "Cannot encode Number into type" in v["what"] and "char:" in v["what"]: return "char-value-not-encodable"
        return "real-roundtrip"
    return v["kind"]
if __name__ == "__main__":
    main(sys.modules[__name__])
