#!/usr/bin/env python3
"""prints the markdown table of seeded changes and check verdicts (from seeded/*/meta.json)"""
import json, os
V = "/verif/seeded"
print("| seeded change | breaks | files | verdicts (check: result) |")
print("|---|---|---|---|")
for n in sorted(os.listdir(V)):
    p = os.path.join(V, n, "meta.json")
    if not os.path.exists(p): continue
    m = json.load(open(p))
    vs = []
    for c, r in sorted(m.get("checks_run", {}).items()):
        if r.get("verdict_pre_fix"): vs.append("%s: %s on the pre-fix tree (the repair removed the mutated lines)" % (c, r["verdict_pre_fix"].split(" (")[0]))
        elif not r.get("applies", True): vs.append("%s: patch no longer applies (see meta.json)" % c)
        else: vs.append("%s: %s" % (c, r.get("verdict", "?").split(" (")[0]))
    print("| %s | %s | %s | %s |" % (n, m["breaks_property"], ", ".join(f.split("/")[-1] for f in m["files_changed"]), "; ".join(vs) or "not run yet"))
