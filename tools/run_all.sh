#!/bin/bash
# run_all.sh [tier] : every claimed check, sequentially; prints verdict lines
T="${1:-quick}"; cd /verif
for id in $(python3 -c "import json; print(' '.join(c['property_id'] for c in json.load(open('MANIFEST.json'))['checks']))"); do
  s=$(date +%s); out=$(./check $id --tier $T 2>&1); rc=$?; e=$(date +%s)
  echo "$id exit=$rc $((e-s))s $(echo "$out" | grep -E 'VIOLATION|INCONCLUSIVE|KNOWN-FINDING|OK:' | head -3 | cut -c1-200)"
done
