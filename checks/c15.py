"""C15: the description formatter only inserts whitespace and is total.

Executes description::formatting::format_type_description (and its nested fns scope_is_small, add_indentation,
Scope::eq) from the MIR of the current tree on strings whose characters are symbolic Unicode scalars; the
solver decides every character dispatch, so one path stands for a whole class vector of inputs."""
import os, sys
sys.path.insert(0, os.path.join(os.path.dirname(os.path.abspath(__file__)), "..", "mirsym"))
from harness import *
from models_desc import SymStr, str_chars

ID = "C15"
CRATES = ("description",)
FUNCTIONS = ["formatting::format_type_description", "format_type_description::scope_is_small", "format_type_description::add_indentation",
             "<format_type_description::Scope as PartialEq>::eq"]
MODELS = ["str::chars", "PeekMore::peekmore / PeekMoreIterator::{next, peek_amount} (queue model)", "SmallVec::{new,push,pop,last}", "String::{new,push,push_str}",
          "Option/slice iterators", "Range<i32>::next"]
ASSUMPTIONS = ["whitespace = Unicode White_Space (char::is_whitespace)", "peekmore/SmallVec/String are modelled semantically, validated on sampled concrete instances against the real build each run",
               "replay binary built from /repo (dev profile: overflow checks on, as in the MIR dump)"]
BOUNDS = {"quick": {"all strings of length <=": 5, "boundary fill k": "28..35", "nesting depth <=": 20},
          "thorough": {"all strings of length <=": 6, "boundary fill k": "24..40", "nesting depth <=": 40}}
OUTSIDE = ["strings longer than the stated lengths other than the boundary/nesting families", "descriptions produced by the crate are covered by C13's bounded registries"]
VALIDATE_K = {"quick": 60, "thorough": 300}

WS = [(0x9, 0xD), (0x20, 0x20), (0x85, 0x85), (0xA0, 0xA0), (0x1680, 0x1680), (0x2000, 0x200A), (0x2028, 0x2029), (0x202F, 0x202F), (0x205F, 0x205F), (0x3000, 0x3000)]
def is_ws_int(c): return any(a <= c <= b for a, b in WS)
def is_ws_z3(c): return z3.Or(*[z3.And(z3.UGE(c, a), z3.ULE(c, b)) for a, b in WS])
def scalar(c): return z3.And(z3.ULE(c, 0x10FFFF), z3.Or(z3.ULT(c, 0xD800), z3.UGT(c, 0xDFFF)))
SPECIAL = "{},()<>"
OPEN = {"{": "}", "(": ")", "<": ">"}

def out_chars(out):
    """flatten the produced String into [(value, tagged_input_or_None)]; value = int | z3 expr"""
    res = []
    for p in deref(out).p:
        if isinstance(p, str): res += [ord(c) for c in p]
        elif isinstance(p, tuple) and p[0] == "char": res.append(p[1].v)
        else: raise Unmodelled("unexpected string piece %r" % (p,))
    return res

def same(a, b):
    if isinstance(a, int) and isinstance(b, int): return a == b
    if isinstance(a, int) or isinstance(b, int): return False
    return a.eq(b)
def same_sem(eng, a, b):
    """identity of terms, else equality implied by the path condition (an implementation may write the literal
    delimiter it has just matched instead of the input character it came from)"""
    if same(a, b): return True
    if isinstance(a, int) and isinstance(b, int): return False
    za = z3.BitVecVal(a, 32) if isinstance(a, int) else a; zb = z3.BitVecVal(b, 32) if isinstance(b, int) else b
    return eng.holds(za == zb)

def concretize(eng, chars, extra=None):
    m = eng.model(extra)
    if m is None: return None
    s = ""
    for c in chars:
        v = c.v if isinstance(c.v, int) else m.eval(c.v, model_completion=True).as_long()
        s += chr(v)
    return s

def concrete_out(eng, out, m):
    s = ""
    for v in out:
        s += chr(v if isinstance(v, int) else m.eval(v, model_completion=True).as_long())
    return s

def strip_ws(s): return "".join(c for c in s if not is_ws_int(ord(c)))

def real_ok(inp, out):
    """the property on concrete strings (used on the real build's output); returns None or a reason"""
    if strip_ws(inp) != strip_ws(out): return "output minus whitespace differs from input minus whitespace"
    if any(is_ws_int(ord(c)) for c in inp): return None
    # properly nested?
    st = []
    for c in inp:
        if c in OPEN: st.append(c)
        elif c in OPEN.values():
            if not st or OPEN[st.pop()] != c: return None
    if st: return None
    return indentation_reason(inp, out)

def indentation_reason(inp, out):
    """second clause, for whitespace-free properly nested input: every inserted line break is followed by exactly
    4 spaces per open scope that was broken over several lines; closers at their opener's depth; `{` keeps one space."""
    i = 0; n = len(out); stack = []   # entries: broken(bool)
    k = 0
    while i < n:
        c = out[i]
        if c == "\n":
            j = i + 1
            while j < n and out[j] == " ": j += 1
            spaces = j - i - 1
            depth = sum(1 for b in stack if b)
            nxt = out[j] if j < n else None
            if nxt is not None and nxt in OPEN.values() and stack and stack[-1]: depth -= 1
            if nxt == "{": spaces -= 1          # the brace's own separating space
            if spaces != 4 * depth: return "line break at output offset %d followed by %d spaces, expected %d" % (i, spaces, 4 * depth)
            i = j; continue
        if c == " ": i += 1; continue      # separating space (after a comma in a one-line scope, before `{`)
        if c in OPEN:
            if c == "{" and not (i >= 1 and out[i-1] == " "): return "opening brace without its separating space"
            broken = i + 1 < n and out[i+1] == "\n"
            if c == "{" and not broken: return "opening brace not followed by a line break"
            stack.append(broken)
        elif c in OPEN.values():
            if not stack: return "closer without opener"
            b = stack.pop()
            # a closer of a broken scope must be on its own line at the opener's depth (checked at the line break)
            if b:
                j = i - 1
                while j >= 0 and out[j] == " ": j -= 1
                if j < 0 or out[j] != "\n": return "closer of a multi-line scope not on its own line"
        i += 1
    if stack: return "text does not end at depth zero"
    return None

def make_run(chars_of, note):
    def run(eng, ctx):
        chars = ctx
        out = eng.call("format_type_description", [], [Slot([SymStr(chars)], 0)])
        oc = out_chars(out)
        viol = []
        # --- clause 1: alignment of output against input (identity of terms), only whitespace in between
        i = 0; ok = True; why = None; pending = []
        for v in oc:
            if i < len(chars) and same(v, chars[i].v): i += 1; continue
            if isinstance(v, int) and is_ws_int(v): continue
            if i < len(chars) and same_sem(eng, v, chars[i].v): i += 1; continue
            # maybe the formatter dropped whitespace input chars (allowed): skip inputs provably whitespace
            j = i
            while j < len(chars) and not same_sem(eng, v, chars[j].v):
                cj = chars[j].v
                if (is_ws_int(cj) if isinstance(cj, int) else eng.holds(is_ws_z3(cj))): j += 1
                else: break
            if j < len(chars) and same_sem(eng, v, chars[j].v): i = j + 1; continue
            ok = False; why = "output character %r is neither the next input character nor inserted whitespace" % (v,); break
        if ok:
            for c in chars[i:]:
                if not (is_ws_int(c.v) if isinstance(c.v, int) else eng.holds(is_ws_z3(c.v))): ok = False; why = "input character not copied to the output"; break
        m = eng.model()
        inp = "".join(chr(c.v if isinstance(c.v, int) else m.eval(c.v, model_completion=True).as_long()) for c in chars)
        outs = concrete_out(eng, oc, m)
        if not ok:
            # semantic fallback on the symbolic terms is not attempted: hand the concrete instance to the real build
            viol.append({"what": "clause 1 (only whitespace inserted): %s; input %r" % (why, inp), "case": {"op": "fmt", "text": inp}})
        # --- clause 2 on the class vector of this path (classes are pinned by the path condition)
        # for whitespace-free instances: pick a model with all chars non-whitespace if one exists
        m2 = eng.model(z3.And(*[z3.Not(is_ws_z3(c.v)) for c in chars if not isinstance(c.v, int)])) if any(not isinstance(c.v, int) for c in chars) else m
        outcome = ["copied"]
        if m2 is not None and ok:
            inp2 = "".join(chr(c.v if isinstance(c.v, int) else m2.eval(c.v, model_completion=True).as_long()) for c in chars)
            if not any(is_ws_int(ord(c)) for c in inp2):
                out2 = concrete_out(eng, oc, m2)
                st = []; nested = True
                for c in inp2:
                    if c in OPEN: st.append(c)
                    elif c in OPEN.values():
                        if not st or OPEN[st.pop()] != c: nested = False; break
                if nested and not st:
                    outcome.append("nested")
                    r = indentation_reason(inp2, out2)
                    if r: viol.append({"what": "clause 2 (indentation): %s; input %r" % (r, inp2), "case": {"op": "fmt", "text": inp2}})
        res = {"outcome": outcome, "violations": viol}
        h = hash(tuple(eng.decisions)) & 0xFFFF
        if h % ctx_validate_mod[0] == 0:
            res["validate"] = {"op": "fmt", "text": inp, "expect": {"out": outs}}
            res["sample"] = {"input": inp, "output": outs}
        return res
    return run

ctx_validate_mod = [64]

def on_panic(eng, ctx, msg):
    chars = ctx
    try: s = concretize(eng, chars)
    except Exception: s = None
    return {"outcome": "panic", "violations": [{"what": "formatter panics: %s; input %r" % (msg, s), "case": {"op": "fmt", "text": s} if s is not None else None}]}

def sym_chars(eng, n, prefix="c", nonspecial=False):
    out = []
    for i in range(n):
        c = z3.BitVec("%s%d" % (prefix, i), 32)
        eng.assume(scalar(c))
        if nonspecial: eng.assume(z3.And(*[c != ord(x) for x in SPECIAL]))
        out.append(Sc("char", c))
    return out
def lit(s): return [Sc("char", ord(c)) for c in s]

def families(eng, tier, seed):
    fams = []
    L = BOUNDS[tier]["all strings of length <="]
    ctx_validate_mod[0] = 64 if tier == "quick" else 1024
    for n in range(0, L + 1):
        fams.append(Family("all-strings-len-%d" % n, (lambda n: lambda eng: sym_chars(eng, n))(n), make_run(None, None),
                           witnesses=("copied",) + (("nested",) if n >= 2 else ()), on_panic=on_panic,
                           target_prefixes=1 if n < 4 else 256))
    for f in fams:
        if f.name in ("all-strings-len-%d" % k for k in range(0, 5 if tier == "quick" else 6)): f.partition = True
    # boundary families for the 32-character look-ahead: pre OPEN fill^k CLOSE post
    ks = range(28, 36) if tier == "quick" else range(24, 41)
    pres = ["", "a", "(", "<", "{"] if tier == "quick" else ["", "a", ",", "(", "<", "{", "((", "<(", "(<", "{(", "a,"]
    for o in "(<":
        for k in ks:
            for pre in pres:
                post = "".join(OPEN[c] for c in reversed(pre) if c in OPEN)
                def mk(eng, o=o, k=k, pre=pre, post=post):
                    fill = sym_chars(eng, 1, "f", nonspecial=True)[0]
                    f2 = sym_chars(eng, 1, "g")[0]          # one fully symbolic char in the middle of the window
                    body = [fill] * (k // 2) + [f2] + [fill] * (k - k // 2 - 1)
                    return lit(pre) + lit(o) + body + lit(OPEN[o]) + lit(post)
                fams.append(Family("window-%s-k%d-pre%r" % (o, k, pre), mk, make_run(None, None), witnesses=("nested",), on_panic=on_panic, target_prefixes=1))
    # nested window: inner scope inside the look-ahead window of the outer
    for k in (ks if tier == "thorough" else range(29, 34)):
        for o, i_ in (("(", "<"), ("<", "("), ("(", "("), ("<", "<")):
            def mk(eng, o=o, i_=i_, k=k):
                fill = sym_chars(eng, 1, "f", nonspecial=True)[0]
                sep = sym_chars(eng, 1, "s")[0]
                return lit(o) + [fill] * 3 + lit(i_) + [fill] * (k - 10) + [sep] + [fill] * 2 + lit(OPEN[i_]) + [fill] * 3 + lit(OPEN[o])
            fams.append(Family("nested-window-%s%s-k%d" % (o, i_, k), mk, make_run(None, None), witnesses=("copied",), on_panic=on_panic, target_prefixes=1))
    # empty scopes inside scopes that are spread over several lines
    for outer in ("(", "<", "{"):
        for inner in ("()", "<>", "{}", "(())", "(<>)"):
            for tail in (0, 34):
                def mk(eng, outer=outer, inner=inner, tail=tail):
                    fill = sym_chars(eng, 1, "f", nonspecial=True)[0]; sep = sym_chars(eng, 1, "s")[0]
                    return lit(outer) + lit(inner) + lit(",") + [fill] * tail + [sep] + lit(inner) + lit(OPEN[outer])
                fams.append(Family("empty-%s-in-%s-tail%d" % (inner, outer, tail), mk, make_run(None, None), witnesses=("copied",), on_panic=on_panic, target_prefixes=1))
    # deep nesting: d openers (symbolic choice among the three kinds, each forced multi-line or not by a filler), then closers
    D = BOUNDS[tier]["nesting depth <="]
    for d in list(range(1, D + 1, 1 if tier == "thorough" else 3)) + [D]:
        for kind in ("{", "(", "<", "mix"):
            def mk(eng, d=d, kind=kind):
                fill = sym_chars(eng, 1, "f", nonspecial=True)[0]
                ops = [kind] * d if kind != "mix" else [("{(<")[i % 3] for i in range(d)]
                s = []
                for o in ops: s += lit(o) + [fill]
                s += [fill] * (34 if kind != "{" else 1)
                for o in reversed(ops): s += lit(OPEN[o])
                return s
            fams.append(Family("depth-%d-%s" % (d, kind), mk, make_run(None, None), witnesses=("nested",), on_panic=on_panic, target_prefixes=1))
    # unbalanced: surplus closers / openers with symbolic neighbours
    for pat in ["}", "}}", "a}", "{a}}", ")", "))", ">", ">>", "(", "((", "<", "{", "{{", "})", "}>", "(}", "<}", "{)", "{>", ")(", "><", "}{"]:
        for extra in ((0, 1) if tier == 'quick' else (0, 1, 2)):
            def mk(eng, pat=pat, extra=extra):
                return sym_chars(eng, extra, "p") + lit(pat) + sym_chars(eng, extra, "q")
            fams.append(Family("unbalanced-%r-%d" % (pat, extra), mk, make_run(None, None), witnesses=("copied",), on_panic=on_panic, target_prefixes=1))
    return fams

def confirm(v, real):
    """does the real build's output violate the property on this concrete input?"""
    if "panic" in real: return True
    inp = v["case"]["text"] if "case" in v and "text" in v["case"] else None
    if inp is None or "out" not in real: return False
    return real_ok(inp, real["out"]) is not None

def classify(v):
    return "panic" if v["what"].startswith("formatter panics") else ("clause1" if "clause 1" in v["what"] else "clause2")

if __name__ == "__main__":
    main(sys.modules[__name__])
