"""Spike 2: pre-compiled execution (each MIR statement is parsed once into a Python closure)."""
import re
from engine import *
from engine import GENERIC_FNS
from mirparse import split_top
import engine as E

class FastEngine(Engine):
    # ------------- compile places
    def c_place(self, s):
        steps = self.parse_place(s)
        n0 = steps[0][1]
        if len(steps) == 1:
            return lambda fr: Slot(fr.locals, n0)
        ops = []
        for st in steps[1:]:
            k = st[0]
            if k == "deref": ops.append(("d", None))
            elif k == "field": ops.append(("f", st[1]))
            elif k == "index":
                if st[1].startswith("_"): ops.append(("i", int(st[1][1:])))
                else: ops.append(("c", int(st[1].split(" ")[0])))
        ops = tuple(ops)
        def get(fr):
            slot = Slot(fr.locals, n0)
            for k, arg in ops:
                if k == "f": slot = Slot(slot.c[slot.k].f, arg)
                elif k == "d":
                    v = slot.c[slot.k]
                    if isinstance(v, Slot): slot = v
                    elif isinstance(v, RcV): slot = Slot(v.cell, 0)
                    elif isinstance(v, Cell): slot = Slot(v.c, 0)
                    elif isinstance(v, Agg) and v.tag == "Box": slot = v.f[0].f[0]
                    elif isinstance(v, (StrV, VecV)): pass
                    else: raise TypeError(f"deref of {v!r} in {s}")
                elif k == "i": slot = Slot(slot.c[slot.k].items, fr.locals[arg].v)
                else: slot = Slot(slot.c[slot.k].items, arg)
            return slot
        return get

    def c_operand(self, fn, s):
        s = s.strip()
        if s.startswith("copy "):
            p = self.c_place(s[5:])
            if re.match(r"^_\d+$", s[5:]):
                n = int(s[6:])
                def cp(fr):
                    v = fr.locals[n]
                    return deepcopy_val(v) if isinstance(v, (Agg, En)) else v
                return cp
            return lambda fr: deepcopy_val(p(fr).get())
        if s.startswith("move "):
            if re.match(r"^_\d+$", s[5:]):
                n = int(s[6:]); return lambda fr: fr.locals[n]
            p = self.c_place(s[5:]); return lambda fr: p(fr).get()
        if s.startswith("const "):
            c = s[6:]
            fakefr = Frame(fn)
            # immutable scalar constants can be shared
            try:
                v = self.const(fakefr, c) if re.match(r"^(true|false|\(\)|-?\d+_\w+|'.*')$", c.strip()) else None
            except Exception: v = None
            if isinstance(v, Sc) or v is UNIT: return lambda fr: v
            return lambda fr: self.const(fr, c)
        if re.match(r"^[<\w]", s): return lambda fr: FnPtr(s)
        raise ValueError("operand? " + s)

    def c_rvalue(self, fn, s):
        s = s.strip()
        if s.startswith("no_retag "): s = s[9:]
        m = re.match(r"^(.*) as (.*) \((\w+)(.*)\)$", s)
        if m: return lambda fr: Engine.rvalue(self, fr, s)      # rare: slow path
        if s.startswith(("copy ", "move ", "const ")): return self.c_operand(fn, s)
        mfk = re.match(r"^&(?:\(fake\)|fake(?: shallow| deep)?) (.*)$", s)
        if mfk: return self.c_place(mfk.group(1))
        if s.startswith("&mut "): return self.c_place(s[5:])
        if s.startswith("&raw "): return self.c_place(s.split(" ", 2)[2])
        if s.startswith("&"): return self.c_place(s[1:])
        m = re.match(r"^discriminant\((.*)\)$", s)
        if m:
            p = self.c_place(m.group(1)); return lambda fr: discr(p(fr).get())
        m = re.match(r"^(Eq|Ne|Lt|Le|Gt|Ge|AddWithOverflow|SubWithOverflow|MulWithOverflow|AddUnchecked|SubUnchecked|MulUnchecked|ShlUnchecked|ShrUnchecked|Add|Sub|Mul|Div|Rem|BitAnd|BitOr|BitXor|Shl|Shr|Cmp)\((.*)\)$", s)
        if m:
            a, b = [self.c_operand(fn, x) for x in split_top(m.group(2))]; op = m.group(1)
            return lambda fr: self.binop(op, a(fr), b(fr))
        if s.startswith("(") and s.endswith(")"):
            ops = [self.c_operand(fn, x) for x in split_top(s[1:-1])]
            return lambda fr: Agg("()", [o(fr) for o in ops])
        # everything else: aggregate forms; parse once to find constructor, evaluate operands each time
        m1 = re.match(r"^(\{closure@[^}]*\})(?: \{ (.*) \})?$", s)
        if m1:
            tag = m1.group(1); ops = [self.c_operand(fn, part.split(": ", 1)[1]) for part in split_top(m1.group(2))] if m1.group(2) else []
            return lambda fr: Agg(tag, [o(fr) for o in ops])
        if s.startswith("[") or s.startswith(("Not(", "Neg(", "PtrMetadata(")): return lambda fr: Engine.rvalue(self, fr, s)
        m2 = re.match(r"^(.+?) \{ (.*) \}$", s)
        if m2: path, opss = m2.group(1), [p.split(": ", 1)[1] for p in split_top(m2.group(2))]
        else:
            m3 = re.match(r"^(.+?) \{\s*\}$", s)
            if m3: path, opss = m3.group(1), []
            else:
                path, args = parse_call(s) if s.endswith(")") else (s, None)
                opss = split_top(args) if args else []
        name, _ = strip_turbofish(path); segs = name.split("::")
        ops = [self.c_operand(fn, o) for o in opss]
        if len(segs) >= 2:
            for en in (segs[-2], "::".join(segs[-3:-1])):
                if (en, segs[-1]) in VARIANTS:
                    idx = VARIANTS[(en, segs[-1])]; vn = segs[-1]
                    return lambda fr, en=en: En(en, idx, vn, [o(fr) for o in ops])
        if len(segs) == 1:
            cands = [k for k in VARIANTS if k[1] == segs[0]]
            if len(cands) == 1:
                en, vn = cands[0]; idx = VARIANTS[cands[0]]
                return lambda fr: En(en, idx, vn, [o(fr) for o in ops])
        tag = segs[-1]
        return lambda fr: Agg(tag, [o(fr) for o in ops])

    def c_stmt(self, fn, st):
        if re.match(r"^(StorageLive|StorageDead|FakeRead|PlaceMention|AscribeUserType|Coverage|ConstEvalCounter|Retag|nop)\b", st): return lambda fr: None      # no run-time effect in this model (const bodies keep their storage markers)
        if " = " not in st: raise Unmodelled("MIR statement %r in %s" % (st[:120], fn.name))
        k = st.index(" = ")
        rv = self.c_rvalue(fn, st[k+3:-1] if st.endswith(";") else st[k+3:])
        lhs = st[:k]
        if re.match(r"^_\d+$", lhs):
            n = int(lhs[1:])
            def run(fr): fr.locals[n] = rv(fr)
            return run
        pl = self.c_place(lhs)
        def run2(fr): pl(fr).set(rv(fr))
        return run2

    def c_term(self, fn, t):
        if t == "return;": return lambda fr: None
        m = re.match(r"^goto -> (bb\d+);$", t)
        if m:
            bb = m.group(1); return lambda fr: bb
        m = re.match(r"^switchInt\((.*)\) -> \[(.*)\];$", t)
        if m:
            op = self.c_operand(fn, m.group(1))
            targets = [tuple(p.split(": ")) for p in m.group(2).split(", ")]
            table = {int(a): b for a, b in targets if a != "otherwise"}
            other = targets[-1][1]
            def sw(fr):
                v = op(fr)
                if not v.sym():
                    val = int(v.v)
                    if v.ty[0] == "i" and val >> (INT_BITS[v.ty]-1): val -= 1 << INT_BITS[v.ty]
                    return table.get(val, other)
                opts = []; others = []
                for a, b in targets:
                    if a == "otherwise": continue
                    c = (v.v if int(a) else z3.Not(v.v)) if v.ty == "bool" else (v.v == z3.BitVecVal(int(a), INT_BITS[v.ty]))
                    opts.append((b, c)); others.append(z3.Not(c))
                if targets[-1][0] == "otherwise": opts.append((other, z3.And(*others)))
                return self.choose(opts)
            return sw
        m = re.match(r"^drop\((.*)\) -> \[return: (bb\d+)", t)
        if m:
            pl = self.c_place(m.group(1)); bb = m.group(2)
            def dr(fr):
                try: v = pl(fr).get()
                except (KeyError, TypeError, AttributeError): v = None
                if hasattr(v, "on_drop"): v.on_drop()
                return bb
            return dr
        m = re.match(r"^(.*?) = (.*) -> \[return: (bb\d+)", t)
        if m and not t.startswith("assert("):
            dest, rhs, nxt = m.groups()
            callee, args = parse_call(rhs)
            ops = [self.c_operand(fn, a) for a in split_top(args)] if args.strip() else []
            if re.match(r"^_\d+$", dest):
                n = int(dest[1:]); setd = lambda fr, r: fr.locals.__setitem__(n, r)
            else:
                pl = self.c_place(dest); setd = lambda fr, r: pl(fr).set(r)
            if callee.startswith(("move _", "copy _")):
                cv = self.c_operand(fn, callee)
                def calld(fr):
                    setd(fr, self.call_value(cv(fr), [o(fr) for o in ops])); return nxt
                return calld
            gn = GENERIC_FNS.get(re.sub(r"::\{closure#\d+\}", "", fn.name).split("::")[-1])
            if gn and any(re.search(r"(?<![\w:])%s(?![\w:])" % re.escape(k), callee) for k in gn):
                def callg(fr):
                    name = callee
                    for k, v in (fr.tysubst or {}).items(): name = re.sub(r"(?<![\w:])%s(?![\w])" % re.escape(k), v, name)
                    setd(fr, self.call(name, [], [o(fr) for o in ops])); return nxt
                return callg
            target = self.prepare_call(callee)
            def callc(fr):
                setd(fr, target([o(fr) for o in ops])); return nxt
            return callc
        return lambda fr: Engine.terminator(self, fr, t)     # assert / unreachable / diverging: slow path

    def prepare_call(self, name):
        """resolve once; returns fn(args) -> value"""
        if re.match(r"^<(Self|[A-Z]) as (.+)>::(\w+)$", name):
            return lambda args: self.call(name, [], args)
        f = self.resolve_local(name)
        if f is None:
            m = re.match(r"^<(.+) as ([\w:]+)(<.*>)?>::(\w+)$", name)
            if m: f = self.fns.get(f"{m.group(2).split('::')[-1]}::{m.group(4)}")
        if f is not None:
            gnames = GENERIC_FNS.get(re.sub(r"::\{closure#\d+\}", "", f.name).split("::")[-1])
            if gnames:
                _, gens = strip_turbofish(name)
                gl = split_top(gens[-1]) if gens else []
                subst = {k: v for k, v in zip(gnames, gl) if re.match(r"^[A-Z]\w*$", k)}
                return lambda args: self.run_fn(f, args, subst)
            return lambda args: self.run_fn(f, args)
        n, g = strip_turbofish(name)
        ms = find_models(n)
        if len(ms) == 1:
            fn, mm = ms[0]
            def one(args):
                try: return fn(self, mm, g, args)
                except Pass: self.unmodelled.add(n); raise Unmodelled(n)
            return one
        return lambda args: dispatch_models(self, n, g, args)

    def call(self, name, gens, args):
        m = re.match(r"^<(Self|[A-Z]) as (.+)>::(\w+)$", name)
        if m:
            tag = None
            if args:
                v = deref(args[0])
                tag = v.tag if isinstance(v, Agg) else (v.enum if isinstance(v, En) else None)
            if tag: name = f"<{tag} as {m.group(2)}>::{m.group(3)}"
            else:
                # receiver is not a struct/enum value (ident, string, iterator, ...): only a library model can apply
                n, g = strip_turbofish(name)
                return dispatch_models(self, n, g, args)
        key = ("prep", name)
        t = self.cache.get(key)
        if t is None: t = self.prepare_call(name); self.cache[key] = t
        return t(args)

    def run_fn(self, f, args, tysubst=None):
        code = getattr(f, "code", None)
        if code is None:
            code = {}
            for bb, blk in f.blocks.items():
                code[bb] = ([self.c_stmt(f, st) for st in blk[:-1]], self.c_term(f, blk[-1]))
            try: f.code = code
            except AttributeError: self.cache[("code", f.name)] = code
        fr = Frame(f)
        fr.tysubst = tysubst
        zi = self.cache.get(("zst", f.name))
        if zi is None:
            # locals of a capture-less closure type are never assigned in MIR (zero-sized): give them their value up front
            zi = [(i, ty) for i, ty in getattr(f, "ltypes", {}).items() if isinstance(ty, str) and ty.startswith("{closure@") and ty in self.closure_index]
            self.cache[("zst", f.name)] = zi
        for i, ty in zi: fr.locals[i] = Agg(ty, [])
        for i, a in zip(f.args, args): fr.locals[i] = a
        self.depth += 1
        if self.depth > self.max_depth: raise Panic("recursion budget exceeded (%d interpreter frames) in %s" % (self.max_depth, f.name))
        if not hasattr(self, "stack"): self.stack = []
        self.stack.append([f.name, "bb0"])
        bb = "bb0"
        try:
            while True:
                self.stack[-1][1] = bb
                stmts, term = code[bb]
                for st in stmts: st(fr)
                self.nsteps += len(stmts) + 1
                if self.max_steps is not None and self.nsteps - self.steps0 > self.max_steps:
                    raise Panic("step budget exceeded (%d interpreted statements on one path) in %s" % (self.max_steps, f.name))
                bb = term(fr)
                if bb is None: return fr.locals.get(0, UNIT)
        except Exception as e:
            if not hasattr(e, "mir_stack"): e.mir_stack = [tuple(x) for x in self.stack]
            raise
        finally:
            self.depth -= 1; self.stack.pop()
