"""C05: generic definitions are recovered as generics (source round trip)."""
import os, sys
sys.path.insert(0, os.path.dirname(os.path.abspath(__file__)))
from gen_common import *
import c01

ID = "C05"
CRATES = ("typegen",)
FUNCTIONS = c01.FUNCTIONS
MODELS = c01.MODELS
ASSUMPTIONS = ["the source-level model of the generic definitions (SOURCE table below) mirrors replay/src/corpus.rs, from which the real scale-info derives the registries; instantiations are coincidence-free",
               "documented normalisations: Box kept only at field level, Cow and VecDeque erased to their wire form, compact as attribute, PhantomData fields replaced by one trailing marker naming exactly the otherwise unused parameters"]
BOUNDS = {"quick": {"definitions": "all generic definitions of the corpus (22 structs, 3 enums)", "instantiation sets": "the corpus set and the closure of each single instantiation"}, "thorough": {"instantiation sets (thorough)": "additionally every pair and triple of instantiations, each in registry order and reversed", "instantiation sets": "same, all settings variants"}}
OUTSIDE = ["programs beyond the corpus definitions"]
GLOBAL_WITNESSES = ("Ok",)

# source expressions: ("P", name) parameter | ("u8") primitives by name | ("vec", x) | ("arr", x, n) | ("tup", [..]) | ("opt", x) | ("box", x) |
# ("compact", x) | ("bits", store, order) | ("item", path, [args]) | ("cow", x) | ("deque", x) | ("string",)
P = lambda n: ("P", n)
G = "replay::corpus::generics::"
def item(p, *args): return ("item", p, list(args))
SOURCE = {
 G + "G": (["T"], [], [("a", P("T")), ("b", ("vec", P("T"))), ("c", ("opt", P("T"))), ("d", "u8")]),
 G + "G2": (["A", "B"], [], [("x", P("A")), ("y", P("B")), ("z", ("tup", [P("B"), P("A")])), ("arr", ("arr", P("A"), 3))]),
 G + "Nested": (["T"], [], [("g", item(G + "G", P("T"))), ("gg", item(G + "G", item(G + "G", P("T")))), ("bx", ("box", "u16"))]),
 G + "inner::deep::Deep": (["T"], [], [(None, P("T")), (None, item(G + "inner::In"))]),
 G + "Ph": (["T"], [], []),
 G + "NamedPh": (["T", "U"], [], [("a", P("U"))]),
 G + "TuplePh": (["T"], [], [(None, "u8")]),
 G + "TwoUnused": (["A", "B"], [], [("x", "u8")]),
 G + "CowG": (["T"], [], [("c", ("cow", item(G + "G", P("T")))), ("q", ("deque", P("T"))), ("b", ("box", item(G + "G", "u8")))]),
 G + "Matrix": (["T"], [], [("rows", ("vec", ("vec", P("T")))), ("pairs", ("vec", ("tup", [P("T"), "bool"]))), ("arr", ("arr", ("vec", P("T")), 2)), ("opt", ("opt", ("vec", P("T"))))]),
 G + "Tagged": (["T"], [], [("id", "u32")]),
 G + "MyBox": (["T"], [], [(None, P("T"))]),
 G + "UsesMyBox": (["T"], [], [("plain", item(G + "MyBox", "u8")), ("generic", item(G + "MyBox", P("T"))), ("real", ("box", item(G + "MyBox", P("T")))), ("v", ("vec", item(G + "MyBox", "u16")))]),
 G + "Measured": (["T", "U"], ["U"], [("value", P("T")), ("scale", "u8")]),
 G + "Reading": (["T"], [], [("raw", item(G + "Measured", P("T"))), ("n", "u8")]),
 G + "Pair": (["Hash", "Hashing"], [], [("first", P("Hash")), ("second", P("Hashing"))]),
 G + "Swapper": (["A", "B"], [], [("p", item(G + "Pair", P("B"), P("A"))), ("q", item(G + "Pair", P("A"), P("B"))), ("v", ("vec", item(G + "Pair", P("B"), P("A"))))]),
 "replay::corpus::compact::CompG": (["T"], [], [("value", ("compact", P("T"))), ("other", "u8")]),
 "replay::corpus::bits::BitsG": (["S", "O"], [], [("f", ("bits", P("S"), P("O")))]),
 "replay::corpus::reach::Foo": (["T"], [], [("t", P("T"))]),
 "replay::corpus::compact_as::GenOne": (["T"], [], [(None, P("T"))]),
 "replay::corpus::assoc::Hdr": (["T"], ["T"], None),           # associated-type fields: only the parameter list is checked
 "replay::corpus::assoc::HdrNoSkip": (["T"], [], None),
}
ENUM_SOURCE = {
 G + "GE": (["T"], [("None", []), ("One", [(None, P("T"))]), ("Many", [("items", ("vec", P("T"))), ("n", "u32")])]),
 "replay::corpus::rec::Tree": (["T"], [("Leaf", [(None, P("T"))]), ("Node", [(None, ("box", item("replay::corpus::rec::Tree", P("T")))), (None, ("box", item("replay::corpus::rec::Tree", P("T"))))])]),
 G + "EnumPh": (["T"], [("A", [(None, "u8")]), ("B", [])]),
}
PRIMS = {"bool", "char", "u8", "u16", "u32", "u64", "u128", "i8", "i16", "i32", "i64", "i128"}

def expect_ty(x, pmap, st, field_level=True):
    """expected reader AST of a source type expression"""
    root = st.root(); a = list(st.alloc_root())
    if isinstance(x, str):
        if x in PRIMS: return ("path", True, ["core", "primitive", x], [])
        if x == "string": return ("path", True, a + ["string", "String"], [])
    k = x[0]
    if k == "P": return ("path", False, [pmap[x[1]]], [])
    if k == "vec": return ("path", True, a + ["vec", "Vec"], [expect_ty(x[1], pmap, st, False)])
    if k == "deque": return ("path", True, a + ["vec", "Vec"], [expect_ty(x[1], pmap, st, False)])
    if k == "arr": return ("array", expect_ty(x[1], pmap, st, False), "%dusize" % x[2])
    if k == "tup": return ("tuple", [expect_ty(y, pmap, st, False) for y in x[1]])
    if k == "opt": return ("path", True, ["core", "option", "Option"], [expect_ty(x[1], pmap, st, False)])
    if k == "box":
        inner = expect_ty(x[1], pmap, st, False)
        return ("path", True, a + ["boxed", "Box"], [inner]) if field_level else inner
    if k == "cow": return expect_ty(x[1], pmap, st, False)
    if k == "compact":
        inner = expect_ty(x[1], pmap, st, False)
        if field_level: return inner          # compact as attribute
        cp = st.get("compact_path").replace(" ", ""); lead = cp.startswith("::")
        return ("path", lead, cp.strip(":").split("::"), [inner])
    if k == "bits":
        bp = st.get("bits_path").replace(" ", ""); lead = bp.startswith("::")
        return ("path", lead, bp.strip(":").split("::"), [expect_ty(x[1], pmap, st, False), expect_ty(x[2], pmap, st, False)])
    if k == "item": return ("path", False, [root] + x[1].split("::"), [expect_ty(y, pmap, st, False) for y in x[2]])
    raise ValueError(x)

def used_params(x, acc):
    if isinstance(x, tuple):
        if x[0] == "P": acc.add(x[1])
        for y in x[1:]:
            if isinstance(y, tuple): used_params(y, acc)
            elif isinstance(y, list):
                for z in y: used_params(z, acc)
    return acc

def check_items(st, toks):
    probs = []
    try: name, module = parse_root(toks)
    except ReaderError as e: return ["does not parse: %s" % e]
    items = {"::".join(p): it for p, it in walk_items(module)}
    def check_fields(path, where, got, src, pmap, unused_expected, is_struct):
        gf = [f for f in got if not is_marker(f) and not (f["name"] == "__ignore")]
        if len(gf) != len(src): probs.append("%s%s: %d fields, source has %d" % (path, where, len(gf), len(src))); return
        for f, (n, x) in zip(gf, src):
            if f["name"] != n: probs.append("%s%s: field name %s vs source %s" % (path, where, f["name"], n))
            want = expect_ty(x, pmap, st, True)
            if f["ty"] != want: probs.append("%s%s field %s: generated type %r, source field type gives %r" % (path, where, n, f["ty"], want))
            wc = isinstance(x, tuple) and x[0] == "compact"
            if (codec_attr(f["attrs"], "compact") is not None) != wc and st.has("codec_attrs"): probs.append("%s%s field %s: compact attribute %s, source says %s" % (path, where, n, not wc, wc))
    for path, it in items.items():
        src = SOURCE.get(path) or ENUM_SOURCE.get(path)
        if src is None: continue
        if path in SOURCE:
            params, skipped, fields = src
        else: params, variants = src; skipped = []; fields = None
        kept = [p for p in params if p not in skipped]
        pmap = {p: "_%d" % params.index(p) for p in kept}
        want_params = [pmap[p] for p in kept]
        if it["params"] != want_params: probs.append("%s: generic parameters %s, expected %s (non-skipped source parameters in declaration order)" % (path, it["params"], want_params))
        used = set()
        if path in SOURCE and fields is not None:
            for n, x in fields: used_params(x, used)
            check_fields(path, "", it["fields"], fields, pmap, None, True)
            markers = [f for f in it["fields"] if is_marker(f)]
        elif path in ENUM_SOURCE:
            gv = [v for v in it["variants"] if v["name"] != "__Ignore"]
            if [v["name"] for v in gv] != [v[0] for v in variants]: probs.append("%s: variants %s vs source %s" % (path, [v["name"] for v in gv], [v[0] for v in variants]))
            else:
                for v, (vn, vf) in zip(gv, variants):
                    for n, x in vf: used_params(x, used)
                    check_fields(path, "::" + vn, v["fields"], vf, pmap, None, False)
            markers = [f for v in it["variants"] if v["name"] == "__Ignore" for f in v["fields"]]
        else: continue
        unused = [pmap[p] for p in kept if p not in used]
        if not unused:
            if markers: probs.append("%s: PhantomData marker although every parameter is used" % path)
        else:
            if len(markers) != 1: probs.append("%s: %d PhantomData markers, expected exactly one naming %s" % (path, len(markers), unused))
            else:
                args = markers[0]["ty"][3]
                named = []
                for a in args:
                    if a[0] == "tuple": named += [x[2][0] for x in a[1]]
                    elif a[0] in ("path",): named.append(a[2][0])
                    elif a[0] == "paren": named.append(a[1][2][0])
                if named != unused: probs.append("%s: marker names %s, expected exactly the unused parameters %s in declaration order" % (path, named, unused))
    return probs

def make_family(name, reg0, st, root=None, reverse=False):
    def mk(eng):
        r = reg0
        if root is not None: r, _ = restrict(reg0, list(root) if isinstance(root, (list, tuple)) else [root])
        if reverse: r = permute(r, list(reversed(range(len(r)))))
        return regdsl._clone(r)
    def run(eng, reg):
        res = {"violations": []}; m = eng.model(); creg = concretize(reg, m)
        out, _, _ = generate(eng, reg, st)
        case = replay_gen_case(creg, st)
        if out["result"] != "Ok":
            res["outcome"] = "Err:" + out["err"][0]
            res["violations"].append({"what": "instantiations of one generic definition do not yield one item: generation gives %s(%s) | %s" % (out["err"][0], out["err"][1], "; ".join(describe(creg, 8))), "case": case, "kind": "err"}); return res
        res["outcome"] = "Ok"
        for p in check_items(st, concretize_tokens(out["tokens"], m)):
            res["violations"].append({"what": p + " | settings %s" % st.d, "case": case, "kind": "items"})
        res["validate"] = dict(case, expect={"result": "Ok", "tokens": plain_tok_str(concretize_tokens(out["tokens"], m))})
        res["sample"] = {"registry": describe(creg, 5)}
        return res
    return Family(name, mk, run, target_prefixes=1)

def families(eng, tier, seed):
    C = corpus(); fams = []
    sets = [STD, Settings(["mod_name rt", "compact_path ::c::Compact", "bits_path b::Bits", "codec_attrs", "alloc ::alloc", "docs 0"])] + ([Settings(["compact_path ::c::Compact", "bits_path ::b::Bits"])] if tier == "thorough" else [])
    for n in ("generics", "modules", "phantom", "two_unused", "cow_generic", "compact_generic", "bits_generic", "reach", "compact_as", "tree", "assoc_noskip", "assoc_same", "mybox", "matrix", "tagged", "skipnest", "swapper"):
        r = C[n]
        for si, st in enumerate(sets):
            if n not in ("assoc_noskip",): fams.append(make_family("program-%s-s%d" % (n, si), r, st))
            # each single instantiation on its own must give the very same item (checked against the same source model)
            for i in user_ids(r):
                if (("::".join(r[i]["path"]) in SOURCE) or ("::".join(r[i]["path"]) in ENUM_SOURCE)) and si == 0:
                    fams.append(make_family("single-%s-%d" % (n, i), r, st, root=i))
            if tier == "thorough" and si == 0 and n not in ("assoc_noskip",):       # (associated-type fields: two instantiations legitimately differ in shape)
                # arbitrary finite sets of instantiations: every pair and triple of instantiations of the modelled definitions,
                # in registry order and reversed (which instantiation is met first must not matter); the whole program reversed
                inst = [i for i in user_ids(r) if ("::".join(r[i]["path"]) in SOURCE) or ("::".join(r[i]["path"]) in ENUM_SOURCE)]
                fams.append(make_family("program-%s-reversed" % n, r, st, reverse=True))
                import itertools
                for k in (2, 3):
                    if len(inst) > 14 and k == 3: continue
                    for combo in itertools.combinations(inst, k):
                        fams.append(make_family("set-%s-%s" % (n, "+".join(map(str, combo))), r, st, root=combo))
                        fams.append(make_family("set-%s-%s-reversed" % (n, "+".join(map(str, combo))), r, st, root=combo, reverse=True))
    return fams

def confirm(v, real):
    if "panic" in real: return True
    st = Settings(v["case"]["set"])
    if v["kind"] == "err": return real.get("result") == "Err"
    return real.get("result") == "Ok" and bool(check_items(st, tokenize(real["tokens"])))
def classify(v):
    w = v["what"]
    for k in ("generic parameters", "marker", "generated type", "compact attribute", "do not yield one item", "fields, source", "variants"):
        if k in w: return k
    return "other"
if __name__ == "__main__":
    main(sys.modules[__name__])
