"""Broader std surface (so that edits to /repo that use other std APIs are executed rather than reported as unmodelled).
Semantics follow the std documentation; strings may contain symbolic chars (pieces ("char", Sc))."""
import re, z3
from engine import *
from models_std import *
import models_std
from models_desc import SymStr, SymChars, str_chars, CharsIt

def mk_str_from_chars(chars):
    s = StrV()
    for c in chars:
        if c.sym(): s.p.append(("char", c))
        elif s.p and isinstance(s.p[-1], str): s.p[-1] += chr(c.v)
        else: s.p.append(chr(c.v))
    return s
def cstr(v, what="string op"):
    v = deref(v)
    if isinstance(v, SymStr):
        if any(c.sym() for c in v.chars): raise Unmodelled(what + " on symbolic string")
        return "".join(chr(c.v) for c in v.chars)
    s = v.concrete()
    if s is None: raise Unmodelled(what + " on symbolic string")
    return s
def U(n): return Sc("usize", n)

WS = [(0x9, 0xD), (0x20, 0x20), (0x85, 0x85), (0xA0, 0xA0), (0x1680, 0x1680), (0x2000, 0x200A), (0x2028, 0x2029), (0x202F, 0x202F), (0x205F, 0x205F), (0x3000, 0x3000)]

# ------------------------------------------------------------------ integers / ordering
def int_cmp(eng, a, b):
    lt = eng.binop("Lt", a, b).v; eq = eng.binop("Eq", a, b).v
    if isinstance(lt, bool) and isinstance(eq, bool): return -1 if lt else (0 if eq else 1)
    return eng.choose([(-1, lt), (0, eq), (1, z3.And(z3.Not(lt), z3.Not(eq)))])
INTS = r"(?:u8|u16|u32|u64|u128|usize|i8|i16|i32|i64|i128|isize|char|bool)"
@model(r"^<" + INTS + r" as Ord>::(max|min)$|^(?:core|std)::cmp::(max|min)$")
def _(eng, m, g, a):
    which = m.group(1) or m.group(2)
    if not isinstance(a[0], Sc): raise Unmodelled("cmp::max/min on non-scalar")
    c = int_cmp(eng, a[0], a[1])
    if which == "max": return a[1] if c <= 0 else a[0]
    return a[0] if c <= 0 else a[1]
@model(r"^<" + INTS + r" as Ord>::clamp$")
def _(eng, m, g, a):
    if int_cmp(eng, a[0], a[1]) < 0: return a[1]
    if int_cmp(eng, a[0], a[2]) > 0: return a[2]
    return a[0]
@model(r"^<&?" + INTS + r" as Ord>::cmp$")
def _(eng, m, g, a): return ordering(int_cmp(eng, deref(a[0]), deref(a[1])))
@model(r"^<&?" + INTS + r" as PartialOrd(<.*>)?>::partial_cmp$")
def _(eng, m, g, a): return some(ordering(int_cmp(eng, deref(a[0]), deref(a[1]))))
@model(r"^<&?" + INTS + r" as PartialOrd(<.*>)?>::(lt|le|gt|ge)$")
def _(eng, m, g, a): return eng.binop({"lt": "Lt", "le": "Le", "gt": "Gt", "ge": "Ge"}[m.group(2)], deref(a[0]), deref(a[1]))
@model(r"^(?:core|std)::num::<impl (\w+)>::(checked_add|checked_sub|checked_mul)$")
def _(eng, m, g, a):
    r = eng.binop({"checked_add": "AddWithOverflow", "checked_sub": "SubWithOverflow", "checked_mul": "MulWithOverflow"}[m.group(2)], a[0], a[1])
    return none() if eng.branch(r.f[1]) else some(r.f[0])
@model(r"^(?:core|std)::num::<impl (\w+)>::(wrapping_add|wrapping_sub|wrapping_mul)$")
def _(eng, m, g, a): return eng.binop({"wrapping_add": "Add", "wrapping_sub": "Sub", "wrapping_mul": "Mul"}[m.group(2)], a[0], a[1])
@model(r"^(?:core|std)::num::<impl (\w+)>::(saturating_add|saturating_sub)$")
def _(eng, m, g, a):
    ty = m.group(1); bits = INT_BITS[ty]; signed = ty[0] == "i"
    r = eng.binop("AddWithOverflow" if m.group(2) == "saturating_add" else "SubWithOverflow", a[0], a[1])
    if not eng.branch(r.f[1]): return r.f[0]
    if not signed: return Sc(ty, (1 << bits) - 1 if m.group(2) == "saturating_add" else 0)
    neg = eng.branch(eng.binop("Lt", a[1], Sc(ty, 0)))
    up = (m.group(2) == "saturating_add") != neg
    return Sc(ty, (1 << (bits - 1)) - 1 if up else (1 << (bits - 1)))
@model(r"^(?:core|std)::num::<impl (i\w+)>::(abs|unsigned_abs)$")
def _(eng, m, g, a):
    ty = m.group(1)
    if eng.branch(eng.binop("Lt", a[0], Sc(ty, 0))):
        r = eng.binop("SubWithOverflow", Sc(ty, 0), a[0])
        if m.group(2) == "abs" and eng.branch(r.f[1]): raise Panic("attempt to negate with overflow")
        return Sc(ty if m.group(2) == "abs" else "u" + ty[1:], r.f[0].v)
    return Sc(ty if m.group(2) == "abs" else "u" + ty[1:], a[0].v)
@model(r"^<(\w+) as TryFrom<(\w+)>>::try_from$")
def _(eng, m, g, a):
    dst, src = m.group(1), m.group(2)
    if dst not in INT_BITS or src not in INT_BITS: raise Unmodelled(m.group(0))
    v = a[0]; db, sb = INT_BITS[dst], INT_BITS[src]; ds, ss = dst[0] == "i", src[0] == "i"
    lo, hi = (-(1 << (db - 1)), (1 << (db - 1)) - 1) if ds else (0, (1 << db) - 1)
    if not v.sym():
        x = v.v - (1 << sb) if ss and v.v >> (sb - 1) else v.v
        return ok(Sc(dst, x & ((1 << db) - 1))) if lo <= x <= hi else err(Agg("TryFromIntError", [UNIT]))
    w = max(db, sb) + 1
    x = z3.SignExt(w - sb, v.v) if ss else z3.ZeroExt(w - sb, v.v)
    inr = z3.And(x >= z3.BitVecVal(lo, w), x <= z3.BitVecVal(hi, w))
    if eng.branch(inr): return ok(Sc(dst, z3.Extract(db - 1, 0, x)))
    return err(Agg("TryFromIntError", [UNIT]))
@model(r"^<(" + INTS + r") as (?:std::default::)?Default>::default$")
def _(eng, m, g, a): return Sc(m.group(1), False if m.group(1) == "bool" else 0)
@model(r"^<(?:std::string::)?String as (?:std::default::)?Default>::default$")
def _(eng, m, g, a): return StrV()
models_std.DEFAULT_HOOKS.append((re.compile(r"^(std::string::)?String$"), lambda eng: StrV()))
models_std.DEFAULT_HOOKS.append((re.compile(r"^" + INTS + r"$"), lambda eng: Sc("usize", 0)))

# ------------------------------------------------------------------ char
def char_pred(eng, c, ranges):
    if not c.sym(): return B(any(lo <= c.v <= hi for lo, hi in ranges))
    return B(z3.Or(*[z3.And(z3.UGE(c.v, lo), z3.ULE(c.v, hi)) for lo, hi in ranges]))
@model(r"^(?:core::char::methods::<impl char>|char)::is_whitespace$")
def _(eng, m, g, a): return char_pred(eng, deref(a[0]), WS)
@model(r"^(?:core::char::methods::<impl char>|char)::is_ascii_whitespace$")
def _(eng, m, g, a): return char_pred(eng, deref(a[0]), [(9, 10), (12, 13), (32, 32)])
@model(r"^(?:core::char::methods::<impl char>|char)::is_ascii_digit$")
def _(eng, m, g, a): return char_pred(eng, deref(a[0]), [(48, 57)])
@model(r"^(?:core::char::methods::<impl char>|char)::is_ascii$")
def _(eng, m, g, a): return char_pred(eng, deref(a[0]), [(0, 127)])
@model(r"^(?:core::char::methods::<impl char>|char)::is_ascii_alphabetic$")
def _(eng, m, g, a): return char_pred(eng, deref(a[0]), [(65, 90), (97, 122)])
@model(r"^(?:core::char::methods::<impl char>|char)::is_ascii_alphanumeric$")
def _(eng, m, g, a): return char_pred(eng, deref(a[0]), [(48, 57), (65, 90), (97, 122)])
@model(r"^(?:core::char::methods::<impl char>|char)::is_ascii_punctuation$")
def _(eng, m, g, a): return char_pred(eng, deref(a[0]), [(33, 47), (58, 64), (91, 96), (123, 126)])
@model(r"^(?:core::char::methods::<impl char>|char)::(is_alphabetic|is_alphanumeric|is_numeric|is_uppercase|is_lowercase|is_control)$")
def _(eng, m, g, a):
    c = deref(a[0])
    if c.sym(): raise Unmodelled("char::" + m.group(1) + " on symbolic char")
    ch = chr(c.v)
    return B({"is_alphabetic": ch.isalpha(), "is_alphanumeric": ch.isalnum(), "is_numeric": ch.isnumeric(), "is_uppercase": ch.isupper(),
              "is_lowercase": ch.islower(), "is_control": c.v < 32 or 127 <= c.v < 160}[m.group(1)])
@model(r"^<char as From<u8>>::from$")
def _(eng, m, g, a):
    v = a[0]
    return Sc("char", z3.ZeroExt(24, v.v) if v.sym() else v.v)
@model(r"^<(u8|u16|u32|u64|u128|usize|i8|i16|i32|i64|i128|isize) as From<(bool|char|u8|u16|u32|u64|u128|usize|i8|i16|i32|i64|i128|isize)>>::from$")
def _(eng, m, g, a):
    dst, src = m.group(1), m.group(2); v = a[0]; db = INT_BITS[dst]
    if src == "bool":
        if v.sym(): return Sc(dst, z3.If(v.v, z3.BitVecVal(1, db), z3.BitVecVal(0, db)))
        return Sc(dst, 1 if v.v else 0)
    sb = INT_BITS[src]
    if v.sym():
        x = v.v
        if db > sb: x = z3.SignExt(db - sb, x) if src[0] == "i" else z3.ZeroExt(db - sb, x)
        elif db < sb: x = z3.Extract(db - 1, 0, x)
        return Sc(dst, x)
    x = v.v
    if src[0] == "i" and x >> (sb - 1): x -= 1 << sb
    return Sc(dst, x & ((1 << db) - 1))
@model(r"^(?:core::char::methods::<impl char>|char)::from_u32$")
def _(eng, m, g, a):
    v = a[0]
    if v.sym():
        okc = z3.And(z3.ULE(v.v, 0x10FFFF), z3.Or(z3.ULT(v.v, 0xD800), z3.UGT(v.v, 0xDFFF)))
        return some(Sc("char", v.v)) if eng.branch(okc) else none()
    return some(Sc("char", v.v)) if v.v <= 0x10FFFF and not 0xD800 <= v.v <= 0xDFFF else none()
@model(r"^(?:core::char::methods::<impl char>|char)::len_utf8$")
def _(eng, m, g, a):
    c = deref(a[0])
    if c.sym():
        k = eng.choose([(1, z3.ULT(c.v, 0x80)), (2, z3.And(z3.UGE(c.v, 0x80), z3.ULT(c.v, 0x800))), (3, z3.And(z3.UGE(c.v, 0x800), z3.ULT(c.v, 0x10000))), (4, z3.UGE(c.v, 0x10000))])
        return U(k)
    return U(len(chr(c.v).encode()))
@model(r"^<char as ToString>::to_string$|^<(?:std::string::)?String as From<char>>::from$")
def _(eng, m, g, a): return mk_str_from_chars([deref(a[0])])

def utf8_bytes(eng, c):
    """bytes (Sc u8) of the UTF-8 encoding of char c (forks on the length class when symbolic)"""
    if not c.sym(): return [Sc("u8", b) for b in chr(c.v).encode("utf-8", "surrogatepass")]
    v = c.v
    k = eng.choose([(1, z3.ULT(v, 0x80)), (2, z3.And(z3.UGE(v, 0x80), z3.ULT(v, 0x800))), (3, z3.And(z3.UGE(v, 0x800), z3.ULT(v, 0x10000))), (4, z3.UGE(v, 0x10000))])
    ex = lambda hi, lo: z3.Extract(hi, lo, v)
    if k == 1: return [Sc("u8", ex(7, 0))]
    cont = lambda hi, lo: Sc("u8", z3.Concat(z3.BitVecVal(2, 2), ex(hi, lo)))
    if k == 2: return [Sc("u8", z3.Concat(z3.BitVecVal(6, 3), ex(10, 6))), cont(5, 0)]
    if k == 3: return [Sc("u8", z3.Concat(z3.BitVecVal(14, 4), ex(15, 12))), cont(11, 6), cont(5, 0)]
    return [Sc("u8", z3.Concat(z3.BitVecVal(30, 5), ex(20, 18))), cont(17, 12), cont(11, 6), cont(5, 0)]

# ------------------------------------------------------------------ str / String
@model(r"^core::str::<impl str>::bytes$")
def _(eng, m, g, a):
    out = []
    for c in str_chars(a[0]): out += utf8_bytes(eng, c)
    return ListIt(out, byref=False)
@model(r"^core::str::<impl str>::as_bytes$|^(?:std::string::)?String::(as_bytes|into_bytes)$")
def _(eng, m, g, a):
    out = []
    for c in str_chars(a[0]): out += utf8_bytes(eng, c)
    return Slot([VecV(out)], 0)
@model(r"^core::str::<impl str>::len$|^(?:std::string::)?String::len$")
def _(eng, m, g, a):
    v = deref(a[0])
    if isinstance(v, StrV) and any(isinstance(p, tuple) and p[0] == "int" for p in v.p):
        # decimal rendering of a symbolic unsigned integer: its length is the exact digit count (a z3 term)
        n = 0; terms = []
        for p in v.p:
            if isinstance(p, tuple) and p[0] == "int":
                x = p[1]
                if not x.sym(): n += len(str(x.v)); continue
                if not x.ty.startswith("u"): raise Unmodelled("len of a string with a signed symbolic number")
                w = x.v.size(); t = z3.BitVecVal(1, 64); k = 10; d = 2
                while k < (1 << w):
                    t = z3.If(z3.UGE(x.v, z3.BitVecVal(k, w)), z3.BitVecVal(d, 64), t); k *= 10; d += 1
                terms.append(t)
            else:
                for c in str_chars(StrV([p])): n += len(utf8_bytes(eng, c))
        r = z3.BitVecVal(n, 64)
        for t in terms: r = r + t
        return Sc("usize", r)
    n = 0
    for c in str_chars(a[0]): n += len(utf8_bytes(eng, c))
    return U(n)
@model(r"^core::str::<impl str>::is_empty$|^(?:std::string::)?String::is_empty$")
def _(eng, m, g, a): return B(len(str_chars(a[0])) == 0)
@model(r"^core::str::<impl str>::repeat$")
def _(eng, m, g, a):
    n = a[1]
    if n.sym(): raise Unmodelled("str::repeat with symbolic count")
    if n.v > (1 << 40): raise Panic("capacity overflow")
    return mk_str_from_chars(str_chars(a[0]) * n.v)
@model(r"^core::str::<impl str>::char_indices$")
def _(eng, m, g, a):
    out = []; off = 0
    for c in str_chars(a[0]):
        out.append(Agg("()", [U(off), c])); off += len(utf8_bytes(eng, c))
    return ListIt(out, byref=False)
@model(r"^core::str::<impl str>::(trim|trim_start|trim_end)$")
def _(eng, m, g, a):
    cs = str_chars(a[0]); lo, hi = 0, len(cs)
    if m.group(1) in ("trim", "trim_start"):
        while lo < hi and eng.branch(char_pred(eng, cs[lo], WS)): lo += 1
    if m.group(1) in ("trim", "trim_end"):
        while hi > lo and eng.branch(char_pred(eng, cs[hi - 1], WS)): hi -= 1
    return Slot([mk_str_from_chars(cs[lo:hi])], 0)
@model(r"^core::str::<impl str>::(to_uppercase|to_lowercase|to_ascii_uppercase|to_ascii_lowercase)$")
def _(eng, m, g, a):
    s = cstr(a[0], m.group(1)); return StrV([s.upper() if "upper" in m.group(1) else s.lower()])
@model(r"^core::str::<impl str>::(ends_with|find|rfind|split_once|strip_prefix|strip_suffix|replace|split|lines|split_whitespace|rsplit|trim_matches|trim_start_matches|trim_end_matches|matches)$")
def _(eng, m, g, a):
    s = cstr(a[0], m.group(1)); k = m.group(1)
    def pat(x):
        x = deref(x)
        if isinstance(x, Sc): return chr(x.v)
        return cstr(x, k)
    bo = lambda t: Slot([StrV([t])], 0)
    if len(a) > 1 and isinstance(deref(a[1]), (Agg, FnPtr)) and not isinstance(deref(a[1]), (StrV, VecV)):
        # a closure / fn item as the pattern (`FnMut(char) -> bool`): decided char by char on the concrete string
        hit = lambda c: eng.branch(eng.call_value(a[1], [Sc("char", ord(c))]))
        if k == "ends_with": return B(bool(s) and hit(s[-1]))
        if k in ("find", "rfind"):
            idx = range(len(s)) if k == "find" else range(len(s) - 1, -1, -1)
            for i in idx:
                if hit(s[i]): return some(U(len(s[:i].encode())))
            return none()
        if k in ("trim_matches", "trim_start_matches", "trim_end_matches"):
            lo, hi = 0, len(s)
            if k != "trim_end_matches":
                while lo < hi and hit(s[lo]): lo += 1
            if k != "trim_start_matches":
                while hi > lo and hit(s[hi - 1]): hi -= 1
            return bo(s[lo:hi])
        if k in ("split", "rsplit"):
            parts = [""]
            for c in s:
                if hit(c): parts.append("")
                else: parts[-1] += c
            return ListIt([bo(x) for x in (parts if k == "split" else reversed(parts))], byref=False)
        raise Unmodelled("str::%s with a closure pattern" % k)
    if k == "ends_with": return B(s.endswith(pat(a[1])))
    if k in ("find", "rfind"):
        i = s.find(pat(a[1])) if k == "find" else s.rfind(pat(a[1]))
        return none() if i < 0 else some(U(len(s[:i].encode())))
    if k == "split_once":
        p = pat(a[1]); i = s.find(p)
        return none() if i < 0 else some(Agg("()", [bo(s[:i]), bo(s[i+len(p):])]))
    if k == "strip_prefix": p = pat(a[1]); return some(bo(s[len(p):])) if s.startswith(p) else none()
    if k == "strip_suffix": p = pat(a[1]); return some(bo(s[:len(s)-len(p)])) if p and s.endswith(p) else (some(bo(s)) if not p else none())
    if k == "replace": return StrV([s.replace(pat(a[1]), cstr(a[2]))])
    if k == "split": return ListIt([bo(x) for x in s.split(pat(a[1]))], byref=False)
    if k == "rsplit": return ListIt([bo(x) for x in reversed(s.split(pat(a[1])))], byref=False)
    if k == "lines": return ListIt([bo(x) for x in s.splitlines()], byref=False)
    if k == "split_whitespace": return ListIt([bo(x) for x in s.split()], byref=False)
    if k == "matches": p = pat(a[1]); return ListIt([bo(p)] * s.count(p), byref=False)
    p = pat(a[1])
    if k == "trim_matches": return bo(s.strip(p) if len(p) == 1 else s)
    if k == "trim_start_matches":
        while p and s.startswith(p): s = s[len(p):]
        return bo(s)
    while p and s.endswith(p): s = s[:len(s)-len(p)]
    return bo(s)
@model(r"^core::str::<impl str>::parse$")
def _(eng, m, g, a):
    s = cstr(a[0], "parse"); t = g[0] if g else ""
    if t in INT_BITS and t not in ("char", "bool"):
        if re.match(r"^[+-]?\d+$", s):
            v = int(s); bits = INT_BITS[t]; lo, hi = (-(1 << (bits-1)), (1 << (bits-1)) - 1) if t[0] == "i" else (0, (1 << bits) - 1)
            if lo <= v <= hi and not (t[0] == "u" and s[0] == "-"): return ok(Sc(t, v & ((1 << bits) - 1)))
        return err(Agg("ParseIntError", [UNIT]))
    if t == "bool": return ok(B(s == "true")) if s in ("true", "false") else err(Agg("ParseBoolError", [UNIT]))
    raise Unmodelled("str::parse::<%s>" % t)
@model(r"^(?:std::string::)?String::with_capacity$")
def _(eng, m, g, a): return StrV()
@model(r"^(?:std::string::)?String::(clear)$")
def _(eng, m, g, a): deref(a[0]).p[:] = []; return UNIT
@model(r"^(?:std::string::)?String::pop$")
def _(eng, m, g, a):
    s = deref(a[0]); cs = str_chars(s)
    if not cs: return none()
    s.p[:] = mk_str_from_chars(cs[:-1]).p; return some(cs[-1])
@model(r"^(?:std::string::)?String::truncate$")
def _(eng, m, g, a):
    s = deref(a[0])
    if s.concrete() is not None:
        b = s.concrete().encode()
        if a[1].v >= len(b): return UNIT
        try: t = b[:a[1].v].decode()
        except UnicodeDecodeError: raise Panic("truncate: not a char boundary")
        s.p[:] = [t] if t else []; return UNIT
    cs = str_chars(s); off = 0; i = 0                    # symbolic characters: walk the utf-8 widths like insert_str does
    while i < len(cs) and off < a[1].v: off += len(utf8_bytes(eng, cs[i])); i += 1
    if off < a[1].v: return UNIT                         # new_len > len: no effect
    if off != a[1].v: raise Panic("truncate: not a char boundary")
    s.p[:] = mk_str_from_chars(cs[:i]).p; return UNIT
@model(r"^(?:std::string::)?String::insert_str$|^(?:std::string::)?String::insert$")
def _(eng, m, g, a):
    s = deref(a[0]); cs = str_chars(s); ins = [a[2]] if isinstance(a[2], Sc) else str_chars(a[2])
    off = 0; i = 0
    while i < len(cs) and off < a[1].v: off += len(utf8_bytes(eng, cs[i])); i += 1
    if off != a[1].v: raise Panic("insert: not a char boundary")
    s.p[:] = mk_str_from_chars(cs[:i] + ins + cs[i:]).p; return UNIT
@model(r"^<(?:std::string::)?String as (?:std::ops::)?AddAssign<&str>>::add_assign$")
def _(eng, m, g, a): deref(a[0]).p += list(deref(a[1]).p); return UNIT
@model(r"^<(?:std::string::)?String as (?:std::ops::)?Add<&str>>::add$")
def _(eng, m, g, a): return StrV(list(deref(a[0]).p) + list(deref(a[1]).p))
@model(r"^<(?:std::string::)?String as (?:std::fmt::|core::fmt::)?Write>::write_str$")
def _(eng, m, g, a): deref(a[0]).p += list(deref(a[1]).p); return ok(UNIT)
@model(r"^<(?:std::string::)?String as (?:std::fmt::|core::fmt::)?Write>::write_char$")
def _(eng, m, g, a):
    c = a[1]; deref(a[0]).p.append(chr(c.v) if not c.sym() else ("char", c)); return ok(UNIT)
@model(r"^<(?:std::string::)?String as (?:std::fmt::|core::fmt::)?Write>::write_fmt$|^<&mut (?:std::string::)?String as (?:std::fmt::|core::fmt::)?Write>::write_fmt$")
def _(eng, m, g, a):
    deref(a[0]).p += eng.call("format", [], [a[1]]).p; return ok(UNIT)
@model(r"^<(?:std::string::)?String as Extend<(char|&str|String|&char)>>::extend$")
def _(eng, m, g, a):
    s = deref(a[0])
    for x in drain(eng, as_iter(eng, a[1])):
        x = deref(x)
        if isinstance(x, Sc): s.p.append(chr(x.v) if not x.sym() else ("char", x))
        else: s.p += list(x.p)
    return UNIT
def collect_string(eng, it, t):
    s = StrV()
    for x in drain(eng, it):
        x = deref(x)
        if isinstance(x, Sc): s.p.append(chr(x.v) if not x.sym() else ("char", x))
        else: s.p += list(x.p)
    return s
models_std.COLLECT_HOOKS.append((re.compile(r"^(std::string::)?String$"), collect_string))
@model(r"^(?:std::string::)?String::from_utf8$|^(?:core|std)::str::from_utf8$")
def _(eng, m, g, a):
    bs = deref(a[0]).items
    if any(b.sym() for b in bs): raise Unmodelled("from_utf8 on symbolic bytes")
    try: return ok(StrV([bytes(b.v for b in bs).decode()]))
    except UnicodeDecodeError: return err(Agg("Utf8Error", [UNIT]))
@model(r"^<str as (?:std::ops::)?Index<(?:std::ops::)?(RangeFrom|RangeTo|Range|RangeFull)<usize>>>::index$|^<(?:std::string::)?String as (?:std::ops::)?Index<(?:std::ops::)?(RangeFrom|RangeTo|Range|RangeFull)(?:<usize>)?>>::index$")
def _(eng, m, g, a):
    b = cstr(a[0], "str index").encode(); k = m.group(1) or m.group(2); r = a[1]
    lo, hi = {"RangeFrom": lambda: (r.f[0].v, len(b)), "RangeTo": lambda: (0, r.f[0].v), "Range": lambda: (r.f[0].v, r.f[1].v), "RangeFull": lambda: (0, len(b))}[k]()
    if lo > hi or hi > len(b): raise Panic("byte index out of range")
    try: return Slot([StrV([b[lo:hi].decode()])], 0)
    except UnicodeDecodeError: raise Panic("byte index is not a char boundary")
@model(r"^<(str|&str|String|std::string::String) as (Ord|PartialOrd)>::(cmp|partial_cmp)$")
def _(eng, m, g, a):
    x, y = cstr(a[0], "cmp"), cstr(a[1], "cmp"); o = ordering(-1 if x < y else (0 if x == y else 1))
    return o if m.group(3) == "cmp" else some(o)

# ------------------------------------------------------------------ mem / misc
@model(r"^(?:std|core)::mem::take$")
def _(eng, m, g, a):
    old = a[0].get(); t = g[0] if g else ""
    if isinstance(old, VecV): new = VecV()
    elif isinstance(old, StrV): new = StrV()
    elif isinstance(old, MapV): new = MapV(old.kind)
    elif isinstance(old, SetV): new = SetV(old.kind)
    elif isinstance(old, En) and old.enum == "Option": new = none()
    elif isinstance(old, Sc): new = Sc(old.ty, False if old.ty == "bool" else 0)
    else: new = eng.call("<%s as Default>::default" % t, [], [])
    a[0].set(new); return old
@model(r"^(?:std|core)::mem::replace$")
def _(eng, m, g, a): old = a[0].get(); a[0].set(a[1]); return old
@model(r"^(?:std|core)::mem::swap$")
def _(eng, m, g, a): x, y = a[0].get(), a[1].get(); a[0].set(y); a[1].set(x); return UNIT
@model(r"^(?:std|core)::mem::drop$|^drop$")
def _(eng, m, g, a):
    if hasattr(a[0], "on_drop"): a[0].on_drop()
    return UNIT
@model(r"^(?:std|core)::convert::identity$")
def _(eng, m, g, a): return a[0]

# ------------------------------------------------------------------ Option / Result extras
@model(r"^Option::unwrap_or_else$")
def _(eng, m, g, a): return a[0].f[0] if a[0].idx == 1 else eng.call_value(a[1], [])
@model(r"^Option::map_or$")
def _(eng, m, g, a): return a[1] if a[0].idx == 0 else eng.call_value(a[2], [a[0].f[0]])
@model(r"^Option::map_or_else$")
def _(eng, m, g, a): return eng.call_value(a[1], []) if a[0].idx == 0 else eng.call_value(a[2], [a[0].f[0]])
@model(r"^Option::and$")
def _(eng, m, g, a): return a[1] if a[0].idx == 1 else none()
@model(r"^Option::xor$")
def _(eng, m, g, a): return a[0] if (a[0].idx == 1 and a[1].idx == 0) else (a[1] if (a[1].idx == 1 and a[0].idx == 0) else none())
@model(r"^Option::take$")
def _(eng, m, g, a): old = a[0].get(); a[0].set(none()); return old
@model(r"^Option::replace$")
def _(eng, m, g, a): old = a[0].get(); a[0].set(some(a[1])); return old
@model(r"^Option::insert$")
def _(eng, m, g, a): a[0].set(some(a[1])); return Slot(a[0].get().f, 0)
@model(r"^Option::(get_or_insert_with|get_or_insert)$")
def _(eng, m, g, a):
    if a[0].get().idx == 0: a[0].set(some(eng.call_value(a[1], []) if m.group(1) == "get_or_insert_with" else a[1]))
    return Slot(a[0].get().f, 0)
@model(r"^Option::(copied)$")
def _(eng, m, g, a): return none() if a[0].idx == 0 else some(clone_val(eng, a[0].f[0]))
@model(r"^Option::flatten$")
def _(eng, m, g, a): return none() if a[0].idx == 0 else a[0].f[0]
@model(r"^Option::(iter|into_iter)$|^<Option<.*> as IntoIterator>::into_iter$")
def _(eng, m, g, a):
    o = deref(a[0])
    if o.idx == 0: return ListIt([], False)
    return ListIt([Slot(o.f, 0)], False) if isinstance(a[0], Slot) else ListIt([o.f[0]], False)
MODELS.insert(0, MODELS.pop())
@model(r"^Option::transpose$")
def _(eng, m, g, a):
    if a[0].idx == 0: return ok(none())
    r = a[0].f[0]; return ok(some(r.f[0])) if r.idx == 0 else err(r.f[0])
@model(r"^Result::(is_ok|is_err)$")
def _(eng, m, g, a): return B((deref(a[0]).idx == 0) == (m.group(1) == "is_ok"))
@model(r"^Result::ok$")
def _(eng, m, g, a): return some(a[0].f[0]) if a[0].idx == 0 else none()
@model(r"^Result::err$")
def _(eng, m, g, a): return some(a[0].f[0]) if a[0].idx == 1 else none()
@model(r"^Result::and_then$")
def _(eng, m, g, a): return a[0] if a[0].idx == 1 else eng.call_value(a[1], [a[0].f[0]])
@model(r"^Result::or_else$")
def _(eng, m, g, a): return a[0] if a[0].idx == 0 else eng.call_value(a[1], [a[0].f[0]])
@model(r"^Result::unwrap_or$")
def _(eng, m, g, a): return a[0].f[0] if a[0].idx == 0 else a[1]
@model(r"^Result::unwrap_or_else$")
def _(eng, m, g, a): return a[0].f[0] if a[0].idx == 0 else eng.call_value(a[1], [a[0].f[0]])
@model(r"^Result::unwrap_or_default$")
def _(eng, m, g, a):
    if a[0].idx == 0: return a[0].f[0]
    return eng.call("Option::unwrap_or_default", g, [none()])
@model(r"^Result::(as_ref|as_mut)$")
def _(eng, m, g, a):
    r = deref(a[0]); return En("Result", r.idx, r.name, [Slot(r.f, 0)])
@model(r"^Result::(unwrap_err|expect_err)$")
def _(eng, m, g, a):
    if a[0].idx == 0: raise Panic("Result::%s on Ok" % m.group(1))
    return a[0].f[0]
@model(r"^Result::map_or$")
def _(eng, m, g, a): return a[1] if a[0].idx == 1 else eng.call_value(a[2], [a[0].f[0]])
@model(r"^Result::is_ok_and$")
def _(eng, m, g, a): return B(False) if a[0].idx == 1 else eng.call_value(a[1], [a[0].f[0]])

# ------------------------------------------------------------------ iterator extras
class TakeIt(It):
    def __init__(self, it, n): self.it = it; self.n = n; self.taken = 0
    def next(self, eng):
        if isinstance(self.n, Sc):                 # symbolic count: one fork per element, like a range
            if not eng.branch(eng.binop("Lt", Sc(self.n.ty, self.taken), self.n)): return None
            self.taken += 1; return self.it.next(eng)
        if self.n <= 0: return None
        self.n -= 1; return self.it.next(eng)
class RepeatWithIt(It):
    def __init__(self, f): self.f = f
    def next(self, eng): return eng.call_value(self.f, [])
class SkipIt(It):
    def __init__(self, it, n): self.it = it; self.n = n
    def next(self, eng):
        while self.n > 0:
            self.n -= 1
            if self.it.next(eng) is None: return None
        return self.it.next(eng)
class FlatIt(It):
    def __init__(self, it, f=None): self.it = it; self.f = f; self.cur = None
    def next(self, eng):
        while True:
            if self.cur is not None:
                x = self.cur.next(eng)
                if x is not None: return x
                self.cur = None
            o = self.it.next(eng)
            if o is None: return None
            if self.f is not None: o = eng.call_value(self.f, [o])
            od = deref(o)
            if isinstance(od, En) and od.enum in ("Option", "Result"):
                self.cur = ListIt([od.f[0]] if od.name in ("Some", "Ok") else [], False)
            else: self.cur = as_iter(eng, o)
class SkipWhileIt(It):
    def __init__(self, it, f): self.it = it; self.f = f; self.done = False
    def next(self, eng):
        while True:
            x = self.it.next(eng)
            if x is None or self.done: return x
            if not eng.branch(eng.call_value(self.f, [Slot([x], 0)])): self.done = True; return x
class TakeWhileIt(It):
    def __init__(self, it, f): self.it = it; self.f = f; self.done = False
    def next(self, eng):
        if self.done: return None
        x = self.it.next(eng)
        if x is None: return None
        if eng.branch(eng.call_value(self.f, [Slot([x], 0)])): return x
        self.done = True; return None
class MapWhileIt(It):
    def __init__(self, it, f): self.it = it; self.f = f; self.done = False
    def next(self, eng):
        if self.done: return None
        x = self.it.next(eng)
        if x is None: return None
        r = eng.call_value(self.f, [x])
        if r.idx == 1: return r.f[0]
        self.done = True; return None
class InspectIt(It):
    def __init__(self, it, f): self.it = it; self.f = f
    def next(self, eng):
        x = self.it.next(eng)
        if x is not None: eng.call_value(self.f, [Slot([x], 0)])
        return x
class StepIt(It):
    def __init__(self, it, n): self.it = it; self.n = n; self.first = True
    def next(self, eng):
        if self.first: self.first = False; return self.it.next(eng)
        for _ in range(self.n - 1):
            if self.it.next(eng) is None: return None
        return self.it.next(eng)
@model(r"^<.* as Iterator>::take$")
def _(eng, m, g, a): return TakeIt(as_iter(eng, a[0]), a[1] if a[1].sym() else a[1].v)
@model(r"^(?:(?:std|core)::iter::)?repeat_with$")
def _(eng, m, g, a): return RepeatWithIt(a[0])
@model(r"^<.* as Iterator>::skip$")
def _(eng, m, g, a): return SkipIt(as_iter(eng, a[0]), a[1].v)
@model(r"^<.* as Iterator>::step_by$")
def _(eng, m, g, a): return StepIt(as_iter(eng, a[0]), a[1].v)
@model(r"^<.* as Iterator>::flat_map$")
def _(eng, m, g, a): return FlatIt(as_iter(eng, a[0]), a[1])
@model(r"^<.* as Iterator>::flatten$")
def _(eng, m, g, a): return FlatIt(as_iter(eng, a[0]))
@model(r"^<.* as Iterator>::skip_while$")
def _(eng, m, g, a): return SkipWhileIt(as_iter(eng, a[0]), a[1])
@model(r"^<.* as Iterator>::take_while$")
def _(eng, m, g, a): return TakeWhileIt(as_iter(eng, a[0]), a[1])
@model(r"^<.* as Iterator>::map_while$")
def _(eng, m, g, a): return MapWhileIt(as_iter(eng, a[0]), a[1])
@model(r"^<.* as Iterator>::inspect$")
def _(eng, m, g, a): return InspectIt(as_iter(eng, a[0]), a[1])
@model(r"^<.* as Iterator>::copied$")
def _(eng, m, g, a): return ClonedIt(as_iter(eng, a[0]))
@model(r"^<.* as Iterator>::by_ref$")
def _(eng, m, g, a): return a[0]
@model(r"^<.* as Iterator>::(rev)$")
def _(eng, m, g, a):
    it = as_iter(eng, a[0])
    if isinstance(it, ListIt): return ListIt(list(reversed(it.items[it.pos:])), it.byref) if not it.byref else RevListIt(it)
    xs = drain(eng, it); return ListIt(list(reversed(xs)), False)
class RevListIt(It):
    def __init__(self, li): self.items = li.items; self.lo = li.pos; self.hi = len(li.items)
    def next(self, eng):
        if self.hi > self.lo: self.hi -= 1; return Slot(self.items, self.hi)
        return None
@model(r"^<.* as DoubleEndedIterator>::next_back$")
def _(eng, m, g, a):
    it = deref(a[0])
    if isinstance(it, ListIt):
        if len(it.items) > it.pos:
            if it.byref:
                # shrink the window from the back without copying the container
                if not hasattr(it, "hi"): it.hi = len(it.items)
                raise Unmodelled("next_back on by-ref slice iterator")
            return some(it.items.pop())
        return none()
    raise Unmodelled("next_back on " + type(it).__name__)
@model(r"^<.* as Iterator>::fold$")
def _(eng, m, g, a):
    acc = a[1]; it = as_iter(eng, a[0])
    while True:
        x = it.next(eng)
        if x is None: return acc
        acc = eng.call_value(a[2], [acc, x])
@model(r"^<.* as Iterator>::reduce$")
def _(eng, m, g, a):
    it = as_iter(eng, a[0]); acc = it.next(eng)
    if acc is None: return none()
    while True:
        x = it.next(eng)
        if x is None: return some(acc)
        acc = eng.call_value(a[1], [acc, x])
@model(r"^<.* as Iterator>::for_each$")
def _(eng, m, g, a):
    it = as_iter(eng, a[0])
    while True:
        x = it.next(eng)
        if x is None: return UNIT
        eng.call_value(a[1], [x])
@model(r"^<.* as Iterator>::count$")
def _(eng, m, g, a): return U(len(drain(eng, as_iter(eng, a[0]))))
@model(r"^<.* as ExactSizeIterator>::len$")
def _(eng, m, g, a):
    it = deref(a[0])
    if isinstance(it, ListIt): return U(len(it.items) - it.pos)
    raise Unmodelled("ExactSizeIterator::len on " + type(it).__name__)
@model(r"^<.* as Iterator>::nth$")
def _(eng, m, g, a):
    it = as_iter(eng, a[0])
    for _ in range(a[1].v):
        if it.next(eng) is None: return none()
    x = it.next(eng); return none() if x is None else some(x)
@model(r"^<.* as Iterator>::find_map$")
def _(eng, m, g, a):
    it = as_iter(eng, a[0])
    while True:
        x = it.next(eng)
        if x is None: return none()
        r = eng.call_value(a[1], [x])
        if r.idx == 1: return r
@model(r"^<.* as Iterator>::(sum|product)$")
def _(eng, m, g, a):
    xs = [deref(x) for x in drain(eng, as_iter(eng, a[0]))]; t = (g[-1] if g else None) or (xs[0].ty if xs else "usize")
    acc = Sc(t, 0 if m.group(1) == "sum" else 1)
    for x in xs:
        r = eng.binop("AddWithOverflow" if m.group(1) == "sum" else "MulWithOverflow", acc, x)
        if eng.branch(r.f[1]): raise Panic("arithmetic overflow in Iterator::" + m.group(1))
        acc = r.f[0]
    return acc
def cmp_vals(eng, x, y):
    x, y = deref(x), deref(y)
    if isinstance(x, Sc): return int_cmp(eng, x, y)
    kx, ky = sort_key(x), sort_key(y)
    return -1 if kx < ky else (0 if kx == ky else 1)
@model(r"^<.* as Iterator>::(max|min)$")
def _(eng, m, g, a):
    best = None
    for x in drain(eng, as_iter(eng, a[0])):
        if best is None: best = x; continue
        c = cmp_vals(eng, x, best)
        if (m.group(1) == "max" and c >= 0) or (m.group(1) == "min" and c < 0): best = x
    return none() if best is None else some(best)
@model(r"^<.* as Iterator>::(max_by_key|min_by_key)$")
def _(eng, m, g, a):
    best = None; bk = None
    for x in drain(eng, as_iter(eng, a[0])):
        k = eng.call_value(a[1], [Slot([x], 0)])
        if best is None: best, bk = x, k; continue
        c = cmp_vals(eng, k, bk)
        if (m.group(1) == "max_by_key" and c >= 0) or (m.group(1) == "min_by_key" and c < 0): best, bk = x, k
    return none() if best is None else some(best)
@model(r"^<.* as Iterator>::(max_by|min_by)$")
def _(eng, m, g, a):
    best = None
    for x in drain(eng, as_iter(eng, a[0])):
        if best is None: best = x; continue
        c = eng.call_value(a[1], [Slot([x], 0), Slot([best], 0)]).idx - 1
        if (m.group(1) == "max_by" and c >= 0) or (m.group(1) == "min_by" and c < 0): best = x
    return none() if best is None else some(best)
@model(r"^<.* as Iterator>::unzip$")
def _(eng, m, g, a):
    xs = drain(eng, as_iter(eng, a[0]))
    return Agg("()", [VecV([deref(x).f[0] for x in xs]), VecV([deref(x).f[1] for x in xs])])
@model(r"^<.* as Iterator>::partition$")
def _(eng, m, g, a):
    yes, no = [], []
    for x in drain(eng, as_iter(eng, a[0])):
        (yes if eng.branch(eng.call_value(a[1], [Slot([x], 0)])) else no).append(x)
    return Agg("()", [VecV(yes), VecV(no)])
@model(r"^<.* as Iterator>::(try_for_each|try_fold)$")
def _(eng, m, g, a):
    it = as_iter(eng, a[0]); acc = a[1] if m.group(1) == "try_fold" else None; f = a[2] if m.group(1) == "try_fold" else a[1]
    last = None
    while True:
        x = it.next(eng)
        if x is None:
            if last is None:
                # no element: Ok/Some/Continue of the accumulator; shape unknown without a sample -> derive from turbofish
                t = (g[-1] if g else "")
                if t.startswith("Option"): return some(acc if acc is not None else UNIT)
                if "ControlFlow" in t: return En("ControlFlow", 0, "Continue", [acc if acc is not None else UNIT])
                return ok(acc if acc is not None else UNIT)
            return last
        r = eng.call_value(f, [acc, x] if m.group(1) == "try_fold" else [x])
        if (r.enum == "Result" and r.idx == 1) or (r.enum == "Option" and r.idx == 0) or (r.enum == "ControlFlow" and r.idx == 1): return r
        acc = r.f[0]; last = r
@model(r"^<.* as Iterator>::(is_sorted|eq)$")
def _(eng, m, g, a):
    if m.group(1) == "eq":
        xs = drain(eng, as_iter(eng, a[0])); ys = drain(eng, as_iter(eng, a[1]))
        return B(len(xs) == len(ys) and z_and([eq_val(eng, x, y) for x, y in zip(xs, ys)]))
    xs = drain(eng, as_iter(eng, a[0]))
    return B(all(cmp_vals(eng, xs[i], xs[i+1]) <= 0 for i in range(len(xs) - 1)))
@model(r"^<.* as Iterator>::size_hint$")
def _(eng, m, g, a): return Agg("()", [U(0), none()])
@model(r"^(?:(?:std|core)::iter::)?(once|repeat_n)$|^(?:std|core)::iter::(empty)$")
def _(eng, m, g, a):
    if m.group(1) == "once": return ListIt([a[0]], False)
    if m.group(2) == "empty": return ListIt([], False)
    return ListIt([clone_val(eng, a[0]) for _ in range(a[1].v)], False)

# ------------------------------------------------------------------ Vec / slice extras
@model(r"^(?:std::vec::)?Vec::pop$")
def _(eng, m, g, a):
    it = deref(a[0]).items; return some(it.pop()) if it else none()
@model(r"^(?:std::vec::)?Vec::remove$")
def _(eng, m, g, a):
    it = deref(a[0]).items
    if a[1].v >= len(it): raise Panic("removal index out of bounds")
    return it.pop(a[1].v)
@model(r"^(?:std::vec::)?Vec::swap_remove$")
def _(eng, m, g, a):
    it = deref(a[0]).items
    if a[1].v >= len(it): raise Panic("swap_remove index out of bounds")
    it[a[1].v], it[-1] = it[-1], it[a[1].v]; return it.pop()
@model(r"^(?:std::vec::)?Vec::(clear)$")
def _(eng, m, g, a): deref(a[0]).items[:] = []; return UNIT
@model(r"^(?:std::vec::)?Vec::truncate$")
def _(eng, m, g, a): del deref(a[0]).items[a[1].v:]; return UNIT
@model(r"^(?:std::vec::)?Vec::(retain|retain_mut)$")
def _(eng, m, g, a):
    v = deref(a[0]); keep = []
    for i in range(len(v.items)):
        if eng.branch(eng.call_value(a[1], [Slot(v.items, i)])): keep.append(v.items[i])
    v.items[:] = keep; return UNIT
@model(r"^(?:std::vec::)?Vec::(extend_from_slice)$")
def _(eng, m, g, a): deref(a[0]).items += [clone_val(eng, x) for x in deref(a[1]).items]; return UNIT
@model(r"^(?:std::vec::)?Vec::append$")
def _(eng, m, g, a):
    o = deref(a[1]); deref(a[0]).items += o.items; o.items = []; return UNIT
@model(r"^(?:std::vec::)?Vec::(dedup)$")
def _(eng, m, g, a):
    v = deref(a[0]); out = []
    for x in v.items:
        if out and eng.branch(eq_val(eng, out[-1], x)): continue
        out.append(x)
    v.items[:] = out; return UNIT
@model(r"^(?:std::vec::)?Vec::(drain)$")
def _(eng, m, g, a):
    v = deref(a[0]); r = a[1]
    if isinstance(r, Agg) and r.tag == "RangeFull": lo, hi = 0, len(v.items)
    elif isinstance(r, Agg) and r.tag == "Range": lo, hi = r.f[0].v, r.f[1].v
    elif isinstance(r, Agg) and r.tag == "RangeFrom": lo, hi = r.f[0].v, len(v.items)
    elif isinstance(r, Agg) and r.tag == "RangeTo": lo, hi = 0, r.f[0].v
    else: raise Unmodelled("Vec::drain range")
    out = v.items[lo:hi]; del v.items[lo:hi]; return ListIt(out, False)
@model(r"^(?:std::vec::)?Vec::(as_slice|as_mut_slice|into_boxed_slice|shrink_to_fit|reserve|leak)$")
def _(eng, m, g, a): return a[0] if m.group(1) not in ("shrink_to_fit", "reserve") else UNIT
@model(r"^(?:std::vec::)?from_elem$|^(?:std|alloc)::vec::from_elem$")
def _(eng, m, g, a): return VecV([clone_val(eng, a[0]) for _ in range(a[1].v)])
@model(r"^(?:core|std)::slice::<impl \[.*\]>::contains$")
def _(eng, m, g, a): return B(z_or([eq_val(eng, y, a[1]) for y in deref(a[0]).items]))
@model(r"^(?:core|std)::slice::<impl \[.*\]>::(sort|sort_unstable)$")
def _(eng, m, g, a):
    items = deref(a[0]).items
    for i in range(1, len(items)):
        j = i
        while j > 0 and cmp_vals(eng, items[j-1], items[j]) > 0: items[j-1], items[j] = items[j], items[j-1]; j -= 1
    return UNIT
@model(r"^(?:core|std)::slice::<impl \[.*\]>::(sort_by_key|sort_unstable_by_key|sort_by_cached_key)$")
def _(eng, m, g, a):
    items = deref(a[0]).items
    for i in range(1, len(items)):
        j = i
        while j > 0 and cmp_vals(eng, eng.call_value(a[1], [Slot(items, j-1)]), eng.call_value(a[1], [Slot(items, j)])) > 0:
            items[j-1], items[j] = items[j], items[j-1]; j -= 1
    return UNIT
@model(r"^(?:core|std)::slice::<impl \[.*\]>::sort_unstable_by$")
def _(eng, m, g, a): return eng.call("core::slice::<impl [T]>::sort_by", [], a)
@model(r"^(?:core|std)::slice::<impl \[.*\]>::(reverse)$")
def _(eng, m, g, a): deref(a[0]).items.reverse(); return UNIT
@model(r"^(?:core|std)::slice::<impl \[.*\]>::(swap)$")
def _(eng, m, g, a):
    it = deref(a[0]).items; i, j = a[1].v, a[2].v
    if i >= len(it) or j >= len(it): raise Panic("index out of bounds")
    it[i], it[j] = it[j], it[i]; return UNIT
@model(r"^(?:core|std)::slice::<impl \[.*\]>::(windows|chunks|chunks_exact)$")
def _(eng, m, g, a):
    it = deref(a[0]).items; n = a[1].v
    if n == 0: raise Panic("window/chunk size must be non-zero")
    if m.group(1) == "chunks_exact": return ListIt([Slot([VecV(it[i:i+n])], 0) for i in range(0, len(it) - n + 1, n)], False)
    if m.group(1) == "windows": return ListIt([Slot([VecV(it[i:i+n])], 0) for i in range(0, len(it) - n + 1)], False)
    return ListIt([Slot([VecV(it[i:i+n])], 0) for i in range(0, len(it), n)], False)
@model(r"^(?:core|std)::slice::<impl \[.*\]>::(split_first)$")
def _(eng, m, g, a):
    it = deref(a[0]).items
    return none() if not it else some(Agg("()", [Slot(it, 0), Slot([VecV(it[1:])], 0)]))
@model(r"^(?:core|std)::slice::<impl \[.*\]>::(split_at)$")
def _(eng, m, g, a):
    it = deref(a[0]).items
    if a[1].v > len(it): raise Panic("mid > len")
    return Agg("()", [Slot([VecV(it[:a[1].v])], 0), Slot([VecV(it[a[1].v:])], 0)])
@model(r"^(?:core|std)::slice::<impl \[.*\]>::(starts_with|ends_with)$")
def _(eng, m, g, a):
    it = deref(a[0]).items; p = deref(a[1]).items
    if len(p) > len(it): return B(False)
    part = it[:len(p)] if m.group(1) == "starts_with" else it[len(it)-len(p):]
    return B(z_and([eq_val(eng, x, y) for x, y in zip(part, p)]))
@model(r"^(?:core|std)::slice::<impl \[.*\]>::(is_sorted)$")
def _(eng, m, g, a):
    xs = deref(a[0]).items; return B(all(cmp_vals(eng, xs[i], xs[i+1]) <= 0 for i in range(len(xs) - 1)))
@model(r"^<(?:Vec<.*>|\[.*\]) as (?:std::ops::)?Index(?:Mut)?<(?:std::ops::)?(Range|RangeTo|RangeFull|RangeInclusive)(?:<usize>)?>>::index(?:_mut)?$")
def _(eng, m, g, a):
    it = deref(a[0]).items; r = a[1]; k = m.group(1)
    lo, hi = {"Range": lambda: (r.f[0].v, r.f[1].v), "RangeTo": lambda: (0, r.f[0].v), "RangeFull": lambda: (0, len(it)), "RangeInclusive": lambda: (r.f[0].v, r.f[1].v + 1)}[k]()
    if lo > hi or hi > len(it): raise Panic("slice index out of range")
    return Slot([VecV(it[lo:hi])], 0)
@model(r"^<\[.*\] as (?:std::ops::)?Index(?:Mut)?<usize>>::index(?:_mut)?$")
def _(eng, m, g, a):
    it = deref(a[0]).items
    if a[1].v >= len(it): raise Panic("index out of bounds")
    return Slot(it, a[1].v)
@model(r"^<(?:Vec<.*>|\[.*\]|&\[.*\]) as (?:std::convert::)?AsRef<\[.*\]>>::as_ref$|^<(?:Vec<.*>) as (?:std::borrow::)?Borrow<\[.*\]>>::borrow$")
def _(eng, m, g, a): return a[0]

# ------------------------------------------------------------------ maps / sets extras
@model(r"^(HashMap|BTreeMap)::keys$|^(HashMap|BTreeMap)::into_keys$")
def _(eng, m, g, a):
    mm = deref(a[0]); es = eng_order(eng, mm)
    return ListIt([Slot(e, 0) for e in es], False) if "into" not in m.group(0) else ListIt([e[0] for e in es], False)
@model(r"^(HashMap|BTreeMap)::(values_mut)$")
def _(eng, m, g, a): return ListIt([Slot(e, 1) for e in eng_order(eng, deref(a[0]))], False)
@model(r"^(HashMap|BTreeMap)::(iter_mut)$")
def _(eng, m, g, a): return ListIt([Agg("()", [Slot(e, 0), Slot(e, 1)]) for e in eng_order(eng, deref(a[0]))], False)
@model(r"^(HashMap|BTreeMap)::(clear)$|^(HashSet|BTreeSet)::(clear)$")
def _(eng, m, g, a):
    v = deref(a[0])
    if isinstance(v, MapV): v.e[:] = []
    else: v.items[:] = []
    return UNIT
@model(r"^(HashMap|BTreeMap)::(retain)$")
def _(eng, m, g, a):
    mm = deref(a[0]); keep = []
    for e in eng_order(eng, mm):
        if eng.branch(eng.call_value(a[1], [Slot(e, 0), Slot(e, 1)])): keep.append(e)
    mm.e[:] = [e for e in mm.e if e in keep]; return UNIT
@model(r"^(HashMap|BTreeMap)::(remove_entry)$")
def _(eng, m, g, a):
    mm = deref(a[0]); e = map_find(eng, mm, a[1])
    if e: mm.e.remove(e); return some(Agg("()", [e[0], e[1]]))
    return none()
@model(r"^(HashMap|BTreeMap)::(get_key_value)$")
def _(eng, m, g, a):
    e = map_find(eng, deref(a[0]), a[1]); return some(Agg("()", [Slot(e, 0), Slot(e, 1)])) if e else none()
@model(r"^BTreeMap::(first_key_value|last_key_value)$")
def _(eng, m, g, a):
    es = eng_order(eng, deref(a[0]))
    if not es: return none()
    e = es[0] if m.group(1).startswith("first") else es[-1]
    return some(Agg("()", [Slot(e, 0), Slot(e, 1)]))
@model(r"^<(HashMap|BTreeMap)<.*> as Extend<.*>>::extend$")
def _(eng, m, g, a):
    mm = deref(a[0])
    for x in drain(eng, as_iter(eng, a[1])):
        x = deref(x); e = map_find(eng, mm, x.f[0])
        if e: e[1] = x.f[1]
        else: mm.e.append([x.f[0], x.f[1]])
    return UNIT
@model(r"^std::collections::(hash_map|btree_map)::Entry::and_modify$")
def _(eng, m, g, a):
    en = a[0]
    if en.name == "Occupied": eng.call_value(a[1], [Slot(en.f[0].f[1], 1)])
    return en
@model(r"^std::collections::(hash_map|btree_map)::Entry::key$")
def _(eng, m, g, a):
    en = deref(a[0]); return Slot(en.f[0].f[1], 0) if en.name == "Occupied" else Slot(en.f[0].f, 1)
@model(r"^std::collections::(hash_map|btree_map)::OccupiedEntry::(get_mut|into_mut)$")
def _(eng, m, g, a): return Slot(deref(a[0]).f[1], 1)
@model(r"^std::collections::(hash_map|btree_map)::OccupiedEntry::insert$")
def _(eng, m, g, a): e = deref(a[0]).f[1]; old = e[1]; e[1] = a[1]; return old
@model(r"^std::collections::(hash_map|btree_map)::OccupiedEntry::remove$")
def _(eng, m, g, a): o = deref(a[0]); o.f[0].e.remove(o.f[1]); return o.f[1][1]
@model(r"^(HashSet|BTreeSet)::(union|intersection|difference)$")
def _(eng, m, g, a):
    x, y = deref(a[0]), deref(a[1]); k = m.group(2)
    xs = list(eng_order_set(eng, x)); ys = list(eng_order_set(eng, y))
    iny = lambda v, s: any(eng.branch(eq_val(eng, v, w)) for w in s)
    if k == "union": out = xs + [v for v in ys if not iny(v, xs)]
    elif k == "intersection": out = [v for v in xs if iny(v, ys)]
    else: out = [v for v in xs if not iny(v, ys)]
    return ListIt(out, True)
@model(r"^(HashSet|BTreeSet)::(is_subset|is_superset|is_disjoint)$")
def _(eng, m, g, a):
    x, y = deref(a[0]).items, deref(a[1]).items; k = m.group(2)
    iny = lambda v, s: any(eng.branch(eq_val(eng, v, w)) for w in s)
    if k == "is_subset": return B(all(iny(v, y) for v in x))
    if k == "is_superset": return B(all(iny(v, x) for v in y))
    return B(not any(iny(v, y) for v in x))
@model(r"^(HashSet|BTreeSet)::(retain)$")
def _(eng, m, g, a):
    s = deref(a[0]); keep = [v for v in list(s.items) if eng.branch(eng.call_value(a[1], [Slot([v], 0)]))]
    s.items[:] = keep; return UNIT
@model(r"^(HashSet|BTreeSet)::(get)$")
def _(eng, m, g, a):
    s = deref(a[0])
    for i, y in enumerate(s.items):
        if eng.branch(eq_val(eng, y, a[1])): return some(Slot(s.items, i))
    return none()
@model(r"^(HashSet|BTreeSet)::(take)$")
def _(eng, m, g, a):
    s = deref(a[0])
    for y in s.items:
        if eng.branch(eq_val(eng, y, a[1])): s.items.remove(y); return some(y)
    return none()
@model(r"^BTreeSet::(first|last)$")
def _(eng, m, g, a):
    xs = list(eng_order_set(eng, deref(a[0])))
    return none() if not xs else some(Slot([xs[0] if m.group(1) == "first" else xs[-1]], 0))
@model(r"^(HashMap|HashSet)::with_capacity$")
def _(eng, m, g, a): return MapV("hash") if m.group(1) == "HashMap" else SetV("hash")
@model(r"^<(HashMap|BTreeMap|HashSet|BTreeSet)<.*> as From<\[.*\]>>::from$|^<(HashMap|BTreeMap|HashSet|BTreeSet)<.*> as FromIterator<.*>>::from_iter$")
def _(eng, m, g, a):
    kind = m.group(1) or m.group(2)
    return collect_into(eng, as_iter(eng, a[0]), kind + "<")
@model(r"^<(?:std::vec::)?Vec<.*> as FromIterator<.*>>::from_iter$")
def _(eng, m, g, a): return VecV(drain(eng, as_iter(eng, a[0])))
@model(r"^VecDeque::(new|with_capacity)$")
def _(eng, m, g, a): return VecV()
@model(r"^VecDeque::(push_back)$")
def _(eng, m, g, a): deref(a[0]).items.append(a[1]); return UNIT
@model(r"^VecDeque::(push_front)$")
def _(eng, m, g, a): deref(a[0]).items.insert(0, a[1]); return UNIT
@model(r"^VecDeque::(pop_front|pop_back)$")
def _(eng, m, g, a):
    it = deref(a[0]).items
    if not it: return none()
    return some(it.pop(0) if m.group(1) == "pop_front" else it.pop())
@model(r"^VecDeque::(len|is_empty|iter|front|back)$")
def _(eng, m, g, a):
    it = deref(a[0]).items; k = m.group(1)
    if k == "len": return U(len(it))
    if k == "is_empty": return B(not it)
    if k == "iter": return ListIt(it, True)
    if not it: return none()
    return some(Slot(it, 0 if k == "front" else len(it) - 1))

@model(r"^core::str::<impl str>::(match_indices|rmatch_indices)$")
def _(eng, m, g, a):
    s = cstr(a[0], "match_indices"); p = deref(a[1]); p = chr(p.v) if isinstance(p, Sc) else cstr(p, "match_indices")
    out = []; i = s.find(p)
    while i >= 0 and p:
        out.append(Agg("()", [U(len(s[:i].encode())), Slot([StrV([p])], 0)])); i = s.find(p, i + len(p))
    if m.group(1) == "rmatch_indices": out.reverse()
    return ListIt(out, byref=False)
@model(r"^<(?:std|core)::str::Chars<.*> as DoubleEndedIterator>::next_back$|^<Chars<.*> as DoubleEndedIterator>::next_back$")
def _(eng, m, g, a):
    it = deref(a[0])
    if isinstance(it, SymChars):
        if len(it.chars) > it.pos: return some(it.chars.pop())
        return none()
    raise Pass()
MODELS.insert(0, MODELS.pop())
@model(r"^<.* as Iterator>::(rev)$")
def _(eng, m, g, a):
    it = deref(a[0])
    if isinstance(it, SymChars): return SymChars(list(reversed(it.chars[it.pos:])))
    raise Pass()
MODELS.insert(0, MODELS.pop())

@model(r"^<(?:&)?(?:\[.*\]|Vec<.*>|\(.*\)|Option<.*>) as (Ord|PartialOrd)>::(cmp|partial_cmp)$")
def _(eng, m, g, a):
    o = ordering(cmp_generic(eng, a[0], a[1]))
    return o if m.group(2) == "cmp" else some(o)
@model(r"^<(?:&)?(?:\[.*\]|Vec<.*>|\(.*\)) as PartialOrd>::(lt|le|gt|ge)$")
def _(eng, m, g, a):
    c = cmp_generic(eng, a[0], a[1]); return B({"lt": c < 0, "le": c <= 0, "gt": c > 0, "ge": c >= 0}[m.group(1)])

@model(r"^(?:std|core)::mem::discriminant$|^discriminant$")
def _(eng, m, g, a):
    v = deref(a[0])
    if not isinstance(v, En): raise Unmodelled("mem::discriminant of a non-enum value")
    return Agg("Discriminant", [Sc("isize", v.idx), StrV([v.enum])])
@model(r"^<(?:Vec<.*>|\[.*\]) as (?:std::ops::)?IndexMut<usize>>::index_mut$")
def _(eng, m, g, a):
    it = deref(a[0]).items
    if a[1].sym(): raise Unmodelled("symbolic index")
    if a[1].v >= len(it): raise Panic("index out of bounds")
    return Slot(it, a[1].v)

@model(r"^<.* as ToTokens>::into_token_stream$")
def _(eng, m, g, a):
    import models_tok
    ts = models_tok.TS(); models_tok.to_tokens(eng, a[0], ts); return ts

# `&T: ToString` goes through `Display for &T`, i.e. prints like T
@model(r"^<&(?:mut )?(.+) as ToString>::to_string$")
def _(eng, m, g, a):
    inner = m.group(1)
    if inner == "str": raise Pass()
    x = a[0]
    if isinstance(x, Slot) and isinstance(x.get(), Slot): x = x.get()
    return eng.call("<%s as ToString>::to_string" % inner, [], [x])

# `str::get(range)`: None when out of range or not on a char boundary
@model(r"^core::str::<impl str>::get$")
def _(eng, m, g, a):
    b = cstr(a[0], "str::get").encode(); r = a[1]
    if not isinstance(r, Agg) or any(isinstance(x, Sc) and x.sym() for x in r.f): raise Unmodelled("str::get with a symbolic or unknown range")
    k = r.tag.split("::")[-1].split("<")[0]
    if k == "RangeTo": lo, hi = 0, r.f[0].v
    elif k == "RangeFrom": lo, hi = r.f[0].v, len(b)
    elif k == "Range": lo, hi = r.f[0].v, r.f[1].v
    elif k == "RangeFull": lo, hi = 0, len(b)
    elif k == "RangeToInclusive": lo, hi = 0, r.f[0].v + 1
    else: raise Unmodelled("str::get with range kind %s" % r.tag)
    if lo > hi or hi > len(b): return none()
    try: return some(Slot([StrV([b[lo:hi].decode()])], 0))
    except UnicodeDecodeError: return none()

# ends_with / starts_with on strings that hold symbolic characters: decided character by character (one fork each)
def _sym_affix(eng, m, g, a):
    recv = deref(a[0])
    if isinstance(recv, StrV) and any(isinstance(p, tuple) and p[0] == "int" for p in recv.p): raise Pass()
    chars = str_chars(a[0])
    if not any(c.sym() for c in chars): raise Pass()
    ends = m.group(1) == "ends_with"; p = deref(a[1])
    if isinstance(p, Sc): pat = [p]
    elif isinstance(p, (StrV, SymStr)): pat = str_chars(p)
    elif isinstance(p, (Agg, FnPtr)):
        if not chars: return B(False)
        return B(eng.branch(eng.call_value(a[1], [chars[-1] if ends else chars[0]])))
    else: raise Pass()
    if len(pat) > len(chars): return B(False)
    seg = chars[len(chars) - len(pat):] if ends else chars[:len(pat)]
    for x, y in zip(seg, pat):
        if not eng.branch(eng.binop("Eq", x, y)): return B(False)
    return B(True)
MODELS.insert(0, (re.compile(r"^core::str::<impl str>::(ends_with|starts_with)$"), _sym_affix))
MODELS.insert(0, (re.compile(r"^(?:std::string::)?String::(ends_with|starts_with)$"), _sym_affix))
