"""C04: path de-duplication contract: minimal, sufficient, stable, idempotent."""
import os, sys
sys.path.insert(0, os.path.dirname(os.path.abspath(__file__)))
from gen_common import *
import c01, c03

ID = "C04"
CRATES = ("typegen",)
FUNCTIONS = ["utils::{ensure_unique_type_paths, sanity_pass, types_equal, types_equal_inner}", "generics_list::*", "TypeGenerator::generate_types_mod"]
MODELS = c01.MODELS + ["HashMap<&[String], Vec<Vec<u32>>> incl. into_values order (insertion and reversed)"]
ASSUMPTIONS = ["expected shape groups come from an oracle independent of types_equal: same-path entries without parameters are grouped by their path-tagged wire shape (unfolded to depth 8), entries with parameters by their definition skeleton (field names, recorded type names, variant names and indices)",
               "families: corpus registries (instantiations of one definition: must stay together; associated-type and two-version families: must split), the single-edit families of C03, digit-suffixed names, three shapes per path, two independent path groups"]
BOUNDS = {"quick": {"members per path family": "<= 3", "path groups per registry": "<= 4", "hash orders": "insertion + reversed"}, "thorough": {"members per path family": "<= 4"}}
OUTSIDE = ["more than 4 members per family"]
GLOBAL_WITNESSES = ("renamed", "untouched")

class NamedShapes(RegShapes):
    def shape(self, i, depth):
        s = RegShapes.shape(self, i, depth)
        t = self.ty(i)
        if s[0] in ("struct", "enum") and t["path"]: return (s[0] + ":" + "::".join(t["path"]),) + tuple(s[1:]) if False else (s[0], [("<path>", ("prim", "::".join(t["path"])))] + list(s[1])) if s[0] == "struct" else (s[0], [("<path:%s>" % "::".join(t["path"]), 0, [])] + list(s[1]))
        return s
class ParamShapes(NamedShapes):
    """shape of a generic entry modulo its own parameters: a directly parameter-typed field (recorded type name = the
    parameter's name) and every occurrence of a parameter's concrete id reached through path-less entries become
    ("param", k); nested named items are represented by their path and (recursively treated) arguments"""
    def __init__(self, reg, entry):
        NamedShapes.__init__(self, reg); self.pids = {}
        for k, (n, p) in enumerate(entry["params"]):
            if p is not None and p not in self.pids: self.pids[p] = k
        self.entry = entry
    def shape(self, i, depth):
        if i in self.pids: return ("prim", "param%d" % self.pids[i])
        t = self.ty(i); d = t["def"]
        if len(t["path"]) >= 2 and d[0] in ("composite", "variant") and depth < 8:
            return ("struct", [("<item %s>" % "::".join(t["path"]), ("tuple", [self.shape(p, depth - 1) if p is not None else ("prim", "skipped") for _, p in t["params"]]))])
        if d[0] == "bitseq": return ("struct", [("store", self.shape(d[1], depth - 1)), ("order", self.shape(d[2], depth - 1))])
        return NamedShapes.shape(self, i, depth)
    def entry_shape(self):
        t = self.entry; d = t["def"]; names = {n: k for k, (n, p) in enumerate(t["params"]) if p is not None}
        def fs(fields):
            out = []
            for f in fields:
                if f.get("type_name") in names and t["params"][names[f["type_name"]]][1] == f["ty"]: out.append((f["name"], ("prim", "param%d" % names[f["type_name"]])))
                elif f["ty"] in self.pids:       # direct field whose id coincides with a parameter but is not recorded as that parameter
                    saved = self.pids; self.pids = {}; sh = self.shape(f["ty"], 7); self.pids = saved; out.append((f["name"], sh))
                else: out.append((f["name"], self.shape(f["ty"], 7)))
            return out
        skipped = tuple(k for k, (n, p) in enumerate(t["params"]) if p is None)
        if d[0] == "composite": return ("struct", fs(d[1]), len(t["params"]), skipped)
        return ("enum", [(v["name"], v["index"], fs(v["fields"])) for v in d[1]], len(t["params"]), skipped)
def expected_groups(reg):
    """path(tuple) -> list of groups (lists of ids) in order of first appearance"""
    fam = {}
    for i, t in enumerate(reg):
        if len(t["path"]) >= 2: fam.setdefault(tuple(t["path"]), []).append(i)
    ns = NamedShapes(reg); out = {}
    for p, ids in fam.items():
        groups = []
        for i in ids:
            t = reg[i]
            key = ("generic", repr(ParamShapes(reg, t).entry_shape())) if any(pp is not None for _, pp in t["params"]) and t["def"][0] in ("composite", "variant") else ("shape", repr(ns.shape(i, 8)))
            for g in groups:
                if g[0] == key: g[1].append(i); break
            else: groups.append((key, [i]))
        out[p] = [g[1] for g in groups]
    return out
def expected_paths(reg):
    paths = [list(t["path"]) for t in reg]
    for p, groups in expected_groups(reg).items():
        if len(groups) > 1:
            for k, g in enumerate(groups):
                for i in g: paths[i] = list(p[:-1]) + [p[-1] + str(k + 1)]
    return paths

def make_family(name, mkreg, hash_order="insertion", known_collision=False):
    def mk(eng): return mkreg(eng)
    def run(eng, reg):
        res = {"violations": [], "outcome": []}
        m = eng.model(); creg = concretize(reg, m)
        regv = to_engine(regdsl._clone(reg))
        r = eng.call("ensure_unique_type_paths", [], [Slot([regv], 0)])
        case = {"op": "dedup", "reg": regdsl.encode(creg).hex(), "times": "2"}
        if r.idx == 1:
            res["violations"].append({"what": "ensure_unique_type_paths fails with %s on a registry with consistent ids" % (err_parts(r.f[0]),), "case": case, "kind": "error"}); res["outcome"] = ["error"]; return res
        after = regdsl.from_engine(regv)
        want = expected_paths(reg)
        got = [t["path"] for t in after]
        res["outcome"].append("renamed" if got != [t["path"] for t in reg] else "untouched")
        if got != want:
            bad = [(i, "::".join(reg[i]["path"]), "::".join(got[i]), "::".join(want[i])) for i in range(len(reg)) if got[i] != want[i]]
            res["violations"].append({"what": "renaming differs from the contract (id, old, got, expected): %s | %s" % (bad[:6], "; ".join(describe(creg, 12))), "case": case, "kind": "names"})
        frame = regdsl._clone(reg)
        for t, p in zip(frame, got): t["path"] = p
        if repr(concretize(frame, m)) != repr(concretize(after, m)) and repr(frame) != repr(after):
            res["violations"].append({"what": "something other than paths changed", "case": case, "kind": "frame"})
        # idempotence
        r2 = eng.call("ensure_unique_type_paths", [], [Slot([regv], 0)])
        again = [t["path"] for t in regdsl.from_engine(regv)] if r2.idx == 0 else None
        if again != got:
            res["violations"].append({"what": "second run changes the registry again: %s -> %s" % (["::".join(p) for p in got if p], ["::".join(p) for p in (again or []) if p]), "case": case, "kind": "idempotence"})
        # sufficiency: generation on the result does not fail with DuplicateTypePath
        out, _, _ = generate(eng, regdsl._clone(reg), c03.STDS, dedup=True)
        if out["result"] == "Err" and out["err"][0] == "DuplicateTypePath":
            res["violations"].append({"what": "generation still fails with DuplicateTypePath(%s) after de-duplication | %s" % (out["err"][1], "; ".join(describe(creg, 12))), "case": replay_gen_case(creg, c03.STDS, dedup=True), "kind": "sufficiency"})
        res["validate"] = dict(case, expect={"paths1": ",".join("::".join(p) for p in got)})
        if hash(tuple(eng.decisions)) % 3 == 0: res["sample"] = {"before": ["::".join(t["path"]) for t in reg if t["path"]], "after": ["::".join(p) for p in got if p]}
        return res
    return Family(name, mk, run, hash_order=hash_order, target_prefixes=1)

def digit_families():
    fams = []
    def foo(order):
        def mk(eng):
            reg = [prim("U8"), prim("U32"), prim("Bool"), comp(["m", "Foo"], [fld("a", 0, "u8")]), comp(["m", "Foo"], [fld("a", 1, "u32")]), comp(["m", "Foo1"], [fld("a", 2, "bool")]),
                   comp(["m", "H"], [fld("x", 3, "Foo"), fld("y", 4, "Foo"), fld("z", 5, "Foo1")])]
            return permute(reg, order) if order else reg
        return mk
    fams.append(("digits-collision", foo(None))); fams.append(("digits-collision-reordered", foo([0, 1, 2, 5, 4, 3, 6])))
    def digits_ok(eng):
        # names that already end in digits but do not collide: Foo9 twice
        return [prim("U8"), prim("U32"), comp(["m", "Foo9"], [fld("a", 0, "u8")]), comp(["m", "Foo9"], [fld("a", 1, "u32")]), comp(["m", "H"], [fld("x", 2, "Foo9"), fld("y", 3, "Foo9")])]
    fams.append(("digits-suffix-no-collision", digits_ok))
    def three_shapes(eng):
        return [prim("U8"), prim("U32"), prim("Bool"), comp(["m", "T"], [fld("a", 0, "u8")]), comp(["m", "T"], [fld("a", 1, "u32")]), comp(["m", "T"], [fld("a", 0, "u8")]), comp(["m", "T"], [fld("a", 2, "bool")]),
                comp(["n", "T"], [fld("a", 0, "u8")]), comp(["n", "T"], [fld("b", 0, "u8")]),
                comp(["m", "H"], [fld("p", 3, "T"), fld("q", 4, "T"), fld("r", 5, "T"), fld("s", 6, "T"), fld("t", 7, "T"), fld("u", 8, "T")])]
    fams.append(("three-shapes-two-families", three_shapes))
    def nontransitive(order):
        def mk(eng):
            # Foo<T>{x:Vec<T>, y:T} at u16 and at u8, and a second definition Foo<T>{x:Vec<u8>, y:T} at u32: the u8 instantiation is
            # id-compatible with both other members (types_equal is not transitive here); it must be renamed exactly once
            reg = [prim("U8"), prim("U16"), prim("U32"), seq(0), seq(1),
                   comp(["m", "Foo"], [fld("x", 4, "Vec<T>"), fld("y", 1, "T")], params=[("T", 1)]),
                   comp(["m", "Foo"], [fld("x", 3, "Vec<u8>"), fld("y", 2, "T")], params=[("T", 2)]),
                   comp(["m", "Foo"], [fld("x", 3, "Vec<T>"), fld("y", 0, "T")], params=[("T", 0)]),
                   comp(["m", "H"], [fld("a", 5, "Foo<u16>"), fld("b", 6, "Foo<u32>"), fld("c", 7, "Foo<u8>")])]
            return permute(reg, order) if order else reg
        return mk
    fams.append(("nontransitive-member-last", nontransitive(None))); fams.append(("nontransitive-member-middle", nontransitive([0, 1, 2, 3, 4, 5, 7, 6, 8])))
    return fams

def families(eng, tier, seed):
    C = corpus(); fams = []
    for ho in ("insertion", "reversed"):
        for n, r in C.items():
            if n in ("boxed_param",): continue
            reg = strip_segment(r, ("v1", "v2")) if n == "versions" else strip_segment(r, ("h1", "h2")) if n in ("versions_hdr", "versions_hdr_mirror") else r
            fams.append(make_family("corpus-%s-%s" % (n, ho), (lambda reg: lambda eng: symbolize_leaves(eng, reg, tie_paths=True))(reg), ho))
        for ename, efn in c03.edits():
            if ename in ("nested-struct-other-path", "boxed-self-vs-plain"): continue
            for order in (0, 1): fams.append(make_family("edit-%s-o%d-%s" % (ename, order, ho), c03.edit_family(ename, efn, order), ho))
        for n, mk in digit_families() + c03.generic_families() + c03.recursive_families() + c03.release_families(): fams.append(make_family("%s-%s" % (n, ho), mk, ho))
        if tier == "thorough":
            E = [e for e in c03.edits() if e[0] not in ("nested-struct-other-path", "boxed-self-vs-plain")]
            # four members under one path: the subject, two different single edits of it, and a copy of the first edit (same group)
            for i in range(0, len(E), 2):
                for j in range(1, len(E), 3):
                    if i == j: continue
                    def mk(eng, a=E[i][1], b=E[j][1]):
                        reg, s = c03.base_subject()
                        ids = [s]
                        for fn in (a, b, a):
                            reg.append(regdsl._clone(reg[s])); c = len(reg) - 1; n0 = len(reg); fn(reg, c); ids.append(c)
                        reg.append(comp(["m", "H"], [fld("f%d" % k, x, "S") for k, x in enumerate(ids)]))
                        return reg
                    fams.append(make_family("four-members-%s+%s-%s" % (E[i][0], E[j][0], ho), mk, ho))
    return fams

def confirm(v, real):
    if "panic" in real: return True
    case = v["case"]; reg = regdsl.decode(bytes.fromhex(case["reg"])); k = v["kind"]
    if k == "error": return real.get("result") == "Err"
    if k == "sufficiency": return real.get("result") == "Err" and real.get("err_variant") == "DuplicateTypePath"
    if "paths1" not in real: return False
    got = [p.split("::") if p else [] for p in real["paths1"].split(",")]
    if k == "names": return got != expected_paths(reg)
    if k == "idempotence": return real.get("paths2") != real.get("paths1")
    if k == "frame":
        after = regdsl.decode(bytes.fromhex(real["reg_after"])) if "reg_after" in real else None
        return False
    return False
def classify(v):
    fam = v.get("family", "")
    if fam.startswith("digits-collision"): return "digit-suffix-collision"
    if fam.startswith("generic-repeated-arguments") and v.get("kind") == "names":
        # the C03 finding seen through this contract: the two definitions compare equal, so neither is renamed (got == old for every listed id)
        import re
        rows = re.findall(r"\((\d+), '([^']*)', '([^']*)', '([^']*)'\)", v["what"].split(" | ")[0])
        try:
            if rows and all(old == got for _, old, got, _ in rows) and c03.same_id_binding_clash(regdsl.decode(bytes.fromhex(v["case"]["reg"]))): return "same-id-under-different-parameter-binding"
        except Exception: pass
    return v["kind"] + ":" + fam.rsplit("-", 1)[0]
if __name__ == "__main__":
    main(sys.modules[__name__])
