"""C16: settings builders behave as set/map accumulators over any call history."""
import os, sys
sys.path.insert(0, os.path.dirname(os.path.abspath(__file__)))
from gen_common import *
import c01, c08
import models_syn, models_tok

ID = "C16"
CRATES = ("typegen",)
FUNCTIONS = ["DerivesRegistry::{new, add_derives_for_all, add_attributes_for_all, add_derives_for, add_attributes_for}", "Derives::{extend, insert_derive, extend_from}", "TypeSubstitutes::{new, insert, insert_if_not_exists, extend, parse_path_substitution, parse_path_param_mapping}",
             "substitutes::{absolute_path, AbsolutePath::try_from, is_absolute, path_segments, get_valid_from_substitution_type, get_valid_to_substitution_type, get_ident_from_type_path}"]
MODELS = c01.MODELS
ASSUMPTIONS = ["one inductive step: the pre-state ranges over every subset of a pool (2 paths x 2 derives x 2 attributes in each of the specific and recursive maps, 2 global derives; 2 source paths x 2 targets for substitutes) and is built through the public API in a canonical order - every finite state is reachable that way, and the state IS the maps, so a step from an arbitrary state covers histories of every length; then one call with fork-chosen kind and arguments (valid and invalid forms)",
               "the post-state is read back from the interpreter's map values and compared with the set-union / last-writer / insert-if-absent specification; explicit histories of length 3 are replayed against the real build as witnesses"]
BOUNDS = {"quick": {"pre-states (derives)": "2^6 sampled structure: specific x recursive x global subsets", "calls": "6 kinds x pool", "pre-states (substitutes)": 9, "substitute call forms": 16}, "thorough": {"pre-states (derives)": "larger pool (3 derives)"}}
OUTSIDE = ["pools larger than stated"]
GLOBAL_WITNESSES = ("derives-step", "subst-ok", "subst-err")

def show(eng, x):
    ts = TS(); models_tok.to_tokens(eng, x, ts); return c08.norm(eng_tok_str(ts))
def read_derives(eng, d):
    """DerivesRegistry engine value -> (default (derives, attrs), specific {path: (d, a)}, recursive {path: (d, a)})"""
    def der(v): v = deref(v); return (frozenset(show(eng, x) for x in deref(v.f[0]).items), frozenset(show(eng, x) for x in deref(v.f[1]).items))
    d = deref(d)
    return der(d.f[0]), {show(eng, k): der(v) for k, v in deref(d.f[1]).e}, {show(eng, k): der(v) for k, v in deref(d.f[2]).e}
PATHS = ["a::P", "b::c::Q"]; DER = ["D1", "::x::D2"]; ATT = ["at1", "at2(y)"]

def derives_family(tier):
    def mk(eng):
        pre = []
        for recursive in (False, True):
            for p in PATHS:
                for item in DER[:1] + ATT[:1] + (DER[1:] if tier == "thorough" else []):
                    if eng.choose([(0, True), (1, True)]): pre.append(("rec" if recursive else "for", p, item))
        for item in DER:
            if eng.choose([(0, True), (1, True)]): pre.append(("all", None, item))
        kind = eng.choose([(k, True) for k in ("derive_all", "attr_all", "derive_for", "derive_rec", "attr_for", "attr_rec")])
        p = PATHS[eng.choose([(0, True), (1, True)])] if kind not in ("derive_all", "attr_all") else None
        item = (DER if kind.startswith("derive") else ATT)[eng.choose([(0, True), (1, True)])]
        return pre, (kind, p, item)
    def apply(eng, d, kind, p, item):
        isattr = item in ATT
        val = VecV([attr_value(item) if isattr else syn_path(item)])
        if kind == "all" or kind.endswith("_all"):
            eng.call("DerivesRegistry::add_attributes_for_all" if isattr else "DerivesRegistry::add_derives_for_all", [], [Slot([d], 0), val])
        else:
            eng.call("DerivesRegistry::add_attributes_for" if isattr else "DerivesRegistry::add_derives_for", [], [Slot([d], 0), syn_type_path(p), val, B(kind.endswith("rec"))])
    def spec(state, kind, p, item):
        default, specific, recursive = state
        isattr = item in ATT; it = ("#[%s]" % c08.norm(item)) if isattr else c08.norm(item)
        def add(pair): return (pair[0], pair[1] | {it}) if isattr else (pair[0] | {it}, pair[1])
        if kind == "all" or kind.endswith("_all"): return add(default), specific, recursive
        m = dict(recursive if kind.endswith("rec") else specific)
        m[c08.norm(p)] = add(m.get(c08.norm(p), (frozenset(), frozenset())))
        return (default, specific, m) if kind.endswith("rec") else (default, m, recursive)
    def run(eng, ctx):
        pre, call = ctx
        d = eng.call("DerivesRegistry::new", [], [])
        st = ((frozenset(), frozenset()), {}, {})
        for k, p, item in pre:
            apply(eng, d, k, p, item); st = spec(st, k, p, item)
        res = {"violations": [], "outcome": "derives-step"}
        calls = [("%s %s" % ({"all": "attr_all" if i in ATT else "derive_all", "for": "attr_for" if i in ATT else "derive_for", "rec": "attr_rec" if i in ATT else "derive_rec"}[k], (p + " => " + i) if p else i)) for k, p, i in pre]
        calls.append("%s %s" % (call[0], (call[1] + " => " + call[2]) if call[1] else call[2]))
        case = {"op": "builders", "call": calls}
        if read_derives(eng, d) != st: res["violations"].append({"what": "pre-state built through the API differs from its specification", "case": case, "kind": "derives"})
        apply(eng, d, *call); want = spec(st, *call)
        got = read_derives(eng, d)
        if got != want:
            res["violations"].append({"what": "after %s the registry is %s, the accumulator specification gives %s" % (calls[-1], got, want), "case": case, "kind": "derives", "want": view(want)})
        if hash(tuple(eng.decisions)) % 97 == 0:
            res["validate"] = dict(case, expect=view(got)); res["sample"] = {"history": calls}
        return res
    return Family("derives-inductive-step", mk, run, target_prefixes=96)
def view(state):
    """the view the public API offers (replay prints the same)"""
    default, specific, recursive = state
    def s(x): return ",".join(sorted(x))
    typed = sorted(["%s|%s|%s" % (p, s(v[0]), s(v[1])) for p, v in specific.items()] + ["%s|%s|%s" % (p, s(v[0]), s(v[1])) for p, v in recursive.items()])
    return {"default": "%s|%s" % (s(default[0]), s(default[1])), "typed": ";".join(typed)}

SRC = ["a::Foo", "b::Bar"]; TGT = ["::x::T1", "crate::y::T2"]
FORMS = [  # (source suffix, target, expected result kind or None=ok, mapping kind)
    ("", "::x::N", None), ("<A>", "::x::N<A>", None), ("<A, B>", "::x::N<B, ::q::Z<A>>", None), ("", "::x::N<::core::primitive::u8>", None), ("<A>", "::x::N", None), ("", "crate::z::N", None),
    ("", "x::N", "ExpectedAbsolutePath"), ("<A>", "self::N<A>", "ExpectedAbsolutePath"), ("<A>", "super::N<A>", "ExpectedAbsolutePath"),
    ("", "crates::N", "ExpectedAbsolutePath"), ("<A>", "crate_utils::N<A>", "ExpectedAbsolutePath"), ("", "Crate::z::N", "ExpectedAbsolutePath"),       # look-alikes of `crate`
    ("<'a>", "::x::N", "InvalidFromType"), ("<::b::C>", "::x::N", "InvalidFromType"), ("<Vec<A>>", "::x::N", "InvalidFromType"), ("<A<B>>", "::x::N", "InvalidFromType"),
    ("<A>", "::x::N<(A, A)>", "InvalidToType"), ("<A>", "::x::N<'static>", "InvalidToType"), ("<A>", "::x::N<[A; 2]>", "InvalidToType"),
    ("(A, B)", "::x::N", "ExpectedAngleBracketGenerics"), ("<A>", "::x::N(A)", "ExpectedAngleBracketGenerics"),
]
def read_subs(eng, s):
    out = {}
    for k, v in deref(s).f[0].e:
        key = "::".join(deref(x).concrete() for x in deref(k).items); v = deref(v)
        mp = v.f[1]
        mapping = "PassThrough" if mp.name == "PassThrough" else "Specified(%s)" % ",".join("%s:%s" % (deref(t).f[0].name, deref(t).f[1].v) for t in deref(mp.f[0]).items)
        out[key] = (show(eng, v.f[0]), mapping)
    return out
def mapping_spec(suffix, target):
    sargs = [a.strip() for a in suffix[1:-1].split(",")] if suffix.startswith("<") else []
    targs = "<" in target
    if not sargs and not targs: return "PassThrough"
    return "Specified(%s)" % ",".join("%s:%d" % (a, i) for i, a in enumerate(sargs))
def subst_family(tier):
    def mk(eng):
        pre = []
        for s in SRC:
            k = eng.choose([(0, True), (1, True), (2, True)])
            if k: pre.append((s, TGT[k - 1]))
        how = eng.choose([(h, True) for h in ("insert", "insert_if_absent", "extend1", "extend2")])
        src = eng.choose([(0, True), (1, True)])
        form = eng.choose([(i, True) for i in range(len(FORMS))])
        form2 = eng.choose([(i, True) for i in (0, 6, 9, 13)]) if how == "extend2" else None
        return pre, how, src, form, form2
    def run(eng, ctx):
        pre, how, src, form, form2 = ctx
        models_syn.PAREN_ARGS[0] = True
        try:
            subs = eng.call("TypeSubstitutes::new", [], [])
            spec = {}; calls = []
            for s, t in pre:
                ap = eng.call("absolute_path", [], [syn_path(t)]); eng.call("TypeSubstitutes::insert", [], [Slot([subs], 0), syn_path(s), ap.f[0]])
                spec[s] = (c08.norm(t), "PassThrough"); calls.append("insert %s => %s" % (s, t))
            res = {"violations": []}
            elems = [(SRC[src] + FORMS[form][0], FORMS[form][1], FORMS[form][2])]
            if form2 is not None: elems.append((SRC[1 - src] + FORMS[form2][0], FORMS[form2][1], FORMS[form2][2]))
            got_kind = None; want_kind = None
            if how.startswith("extend"):
                # AbsolutePath conversion happens at the caller for every element before extend is called
                aps = []
                for s, t, k in elems:
                    ap = eng.call("absolute_path", [], [syn_path(t)])
                    if ap.idx == 1: got_kind = got_kind or deref(ap.f[0]).f[1].name; break
                    aps.append(Agg("()", [syn_path(s), ap.f[0]]))
                for s, t, k in elems:
                    if k == "ExpectedAbsolutePath": want_kind = k; break
                if got_kind is None and want_kind is None:
                    r = eng.call("TypeSubstitutes::extend", [], [Slot([subs], 0), VecV(aps)])
                    if r.idx == 1: got_kind = deref(r.f[0]).f[1].name
                    for s, t, k in elems:
                        if k is not None: want_kind = k; break
                        spec[s.split("<")[0].split("(")[0]] = (c08.norm(t), mapping_spec(s[len(s.split("<")[0].split("(")[0]):], t))
                calls.append("extend " + " ;; ".join("%s => %s" % (s, t) for s, t, _ in elems))
            else:
                s, t, k = elems[0]
                ap = eng.call("absolute_path", [], [syn_path(t)])
                if ap.idx == 1: got_kind = deref(ap.f[0]).f[1].name
                else:
                    r = eng.call("TypeSubstitutes::insert" if how == "insert" else "TypeSubstitutes::insert_if_not_exists", [], [Slot([subs], 0), syn_path(s), ap.f[0]])
                    if r.idx == 1: got_kind = deref(r.f[0]).f[1].name
                want_kind = k
                base = s.split("<")[0].split("(")[0]
                if k is None and (how == "insert" or base not in spec): spec[base] = (c08.norm(t), mapping_spec(s[len(base):], t))
                calls.append("%s %s => %s" % (how, s, t))
            case = {"op": "builders", "call": calls}
            res["outcome"] = "subst-ok" if got_kind is None else "subst-err"
            if got_kind != want_kind: res["violations"].append({"what": "call %s: result %s, documented %s" % (calls[-1], got_kind or "ok", want_kind or "ok"), "case": case, "kind": "subst-result", "want": want_kind})
            got = read_subs(eng, subs)
            if got != spec: res["violations"].append({"what": "after %s the rules are %s, the specification (last writer / insert-if-absent / rejected = unchanged) gives %s" % (calls, got, spec), "case": case, "kind": "subst-state", "want": ";".join(sorted("%s=>%s" % (k, v[0]) for k, v in spec.items()))})
            if hash(tuple(eng.decisions)) % 7 == 0:
                res["validate"] = dict(case, expect={"subs": ";".join(sorted("%s=>%s" % (k, v[0]) for k, v in got.items()))}); res["sample"] = {"history": calls}
            return res
        finally: models_syn.PAREN_ARGS[0] = False
    return Family("substitutes-inductive-step", mk, run, target_prefixes=96)

def application_family(tier):
    """explicit histories (length 3, with repetition, any order) whose effect is observed on generated items"""
    C = corpus(); reg = C["reach"]; ips = c08.item_paths(reg)
    P = lambda n: "::".join(next(p for p in ips if p[-1] == n))
    POOL = [("derive_rec", P("Top"), "R1"), ("derive_rec", P("Foo"), "R2"), ("derive_rec", P("Choice"), "R3"), ("derive_for", P("B1"), "S1"), ("derive_all", None, "G1"), ("attrtok_rec", P("Other"), "ra"), ("attrtok_for", P("Inner"), "sa"), ("attrtok_all", None, "ga")]
    def mk(eng): return [POOL[eng.choose([(i, True) for i in range(len(POOL))])] for _ in range(3)]
    def run(eng, hist):
        d = ["%s %s" % (k, (p + " => " + i) if p else i) for k, p, i in hist]
        st = Settings(["compact_path ::c::Compact", "bits_path ::b::Bits"] + d)
        out, _, _ = generate(eng, regdsl._clone(reg), st)
        case = replay_gen_case(reg, st); res = {"violations": [], "outcome": "application"}
        if out["result"] != "Ok": res["violations"].append({"what": "generation fails: %s" % (out["err"],), "case": case, "kind": "application-err"}); return res
        rec = {}; spec = {}; gd = set(); ga = set()
        for k, p, i in hist:
            tgt = gd if k == "derive_all" else ga if k == "attrtok_all" else None
            if tgt is not None: tgt.add(i); continue
            m = rec if k.endswith("rec") else spec
            e = m.setdefault(tuple(p.split("::")), (set(), set())); e[1 if k.startswith("attr") else 0].add(i)
        exp = c08.expected(reg, gd, ga, spec, rec, None)
        name, module = parse_root(out["tokens"])
        for pr in c08.compare(exp, c08.observed(module)):
            res["violations"].append({"what": "%s | history %s" % (pr, d), "case": case, "kind": "application", "ctx": {"gd": sorted(gd), "ga": sorted(ga), "rec": {"::".join(k): [sorted(v[0]), sorted(v[1])] for k, v in rec.items()}, "spec": {"::".join(k): [sorted(v[0]), sorted(v[1])] for k, v in spec.items()}}})
        if hash(tuple(eng.decisions)) % 13 == 0: res["validate"] = dict(case, expect={"result": "Ok", "tokens": plain_tok_str(out["tokens"])})
        return res
    return Family("history-application", mk, run, target_prefixes=64)
GLOBAL_WITNESSES = GLOBAL_WITNESSES + ("application",)
def families(eng, tier, seed): return [derives_family(tier), subst_family(tier), application_family(tier)]

def confirm(v, real):
    if "panic" in real: return True
    k = v["kind"]
    if k == "application-err": return real.get("result") == "Err"
    if k == "application":
        if real.get("result") != "Ok": return False
        reg = regdsl.decode(bytes.fromhex(v["case"]["reg"])); c = v["ctx"]
        rec = {tuple(p.split("::")): (set(a), set(b)) for p, (a, b) in c["rec"].items()}; spec = {tuple(p.split("::")): (set(a), set(b)) for p, (a, b) in c["spec"].items()}
        name, module = parse_root(tokenize(real["tokens"]))
        return bool(c08.compare(c08.expected(reg, set(c["gd"]), set(c["ga"]), spec, rec, None), c08.observed(module)))
    if k == "derives": return "want" in v and {x: real.get(x) for x in ("default", "typed")} != v["want"]
    rs = real.get("res", []); rs = rs if isinstance(rs, list) else [rs]
    if k == "subst-result":
        last = rs[-1] if rs else "?"
        return last != ("ok" if v["want"] is None else "err:" + v["want"])
    if k == "subst-state": return c08.norm(real.get("subs", "")) != v["want"]
    return False
def classify(v): return v["kind"]
if __name__ == "__main__":
    main(sys.modules[__name__])
