#!/bin/bash
# verify_mutant.sh <worktree> <mutdir>  : confirms (a) suite green with patch, (b) demo green without patch, (c) demo red with patch
W="$1"; M="$2"
cd "$W" || exit 9
export CARGO_TARGET_DIR="$W/target" CARGO_NET_OFFLINE=true
clean() { git checkout -q -- . ; git clean -qfd -e out -e target; }
clean
git apply "$M/patch.diff" || { echo "RESULT $M patch-does-not-apply"; exit 1; }
cargo test --workspace --offline --no-fail-fast >"$M/verify_patch_only.log" 2>&1; a=$?
clean
git apply "$M/demo.diff" || { echo "RESULT $M demo-does-not-apply"; exit 1; }
cargo test --workspace --offline --no-fail-fast >"$M/verify_demo_only.log" 2>&1; b=$?
git apply "$M/patch.diff" || { echo "RESULT $M patch-does-not-apply-on-demo"; clean; exit 1; }
cargo test --workspace --offline --no-fail-fast >"$M/verify_both.log" 2>&1; c=$?
clean
if [ $a -eq 0 ] && [ $b -eq 0 ] && [ $c -ne 0 ]; then echo "RESULT $M OK"; else echo "RESULT $M BAD patch_only=$a demo_only=$b both=$c"; fi
