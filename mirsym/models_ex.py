"""Spike 2: models for the example generators (rand, scale_value, token iteration)."""
import re
from engine import *
from models_std import *
import models_std, models_tok
from models_tok import *
from chacha import ChaCha8

add_enum("ValueDef", ["Composite", "Variant", "BitSequence", "Primitive"])
add_enum("Composite", ["Named", "Unnamed"])
add_enum("Primitive", ["Bool", "Char", "String", "U128", "I128", "U256", "I256"])
add_enum("TokenTree", ["Group", "Ident", "Punct", "Literal"])

class SymDraws:
    """A-rng: draw k of a seeded generator is an uninterpreted value of the drawn type (the same z3 constant in every
    execution that uses the same seed, so determinism is a property the check can observe); `choose`/`gen_range` fork"""
    def __init__(self, eng, seed): self.eng = eng; self.seed = seed; self.k = 0
    def fresh(self, ty):
        bits = INT_BITS[ty]; self.k += 1
        tag = self.seed if isinstance(self.seed, int) else "s"
        return z3.Bool("rng%s_%d_bool" % (tag, self.k)) if ty == "bool" else z3.BitVec("rng%s_%d_%s" % (tag, self.k, ty), bits)
    def gen(self, ty): return self.fresh(ty)
    def gen_range_u32(self, lo, hi):
        self.k += 1
        memo = self.eng.rng_memo; key = (self.seed if isinstance(self.seed, int) else "s", self.k, lo, hi)
        if key not in memo: memo[key] = self.eng.choose([(v, True) for v in range(lo, hi)])     # draw k of one seed is one value, in every execution of the path
        return memo[key]
class RngV:
    def __init__(self, seed, eng=None):
        self.r = SymDraws(eng, seed) if (eng is not None and getattr(eng, "rng_mode", "exact") == "symbolic") else ChaCha8(seed)
def value(vd): return Agg("Value", [vd, UNIT])
def vcomp(kind, items): return En("Composite", 0 if kind == "Named" else 1, kind, [VecV(items)])

@model(r"^<(?:rand_chacha::)?ChaCha8Rng as (?:rand::)?SeedableRng>::seed_from_u64$")
def _(eng, m, g, a): return RngV(a[0].v, eng)
@model(r"^<.* as (?:rand::)?Rng>::gen$")
def _(eng, m, g, a):
    r = deref(a[0]).r; t = g[0]
    ma = re.match(r"^\[(\w+); (\d+)\]$", t)
    if ma: return VecV([Sc(ma.group(1), r.gen(ma.group(1))) for _ in range(int(ma.group(2)))])
    return Sc(t, r.gen(t))
@model(r"^<.* as (?:rand::)?Rng>::gen_range$")
def _(eng, m, g, a):
    r = deref(a[0]).r; lo, hi = a[1].f
    return Sc(lo.ty, r.gen_range_u32(lo.v, hi.v))
@model(r"^<\[.*\] as (?:rand::seq::|rand::)?SliceRandom>::choose$")
def _(eng, m, g, a):
    items = deref(a[0]).items
    if not items: return none()
    i = deref(a[1]).r.gen_range_u32(0, len(items))
    return some(Slot(items, i))
@model(r"^Value::primitive$")
def _(eng, m, g, a): return value(En("ValueDef", 3, "Primitive", [a[0]]))
@model(r"^Value::unnamed_composite$")
def _(eng, m, g, a): return value(En("ValueDef", 0, "Composite", [vcomp("Unnamed", drain(eng, as_iter(eng, a[0])))]))
@model(r"^Value::bit_sequence$")
def _(eng, m, g, a): return value(En("ValueDef", 2, "BitSequence", [a[0]]))
@model(r"^scale_value::Composite::(named|unnamed)$")
def _(eng, m, g, a):
    items = drain(eng, as_iter(eng, a[0]))
    return vcomp("Named" if m.group(1) == "named" else "Unnamed", items)
@model(r"^scale_value::BitSequence::new$")
def _(eng, m, g, a): return VecV()
@model(r"^scale_value::BitSequence::push$")
def _(eng, m, g, a): deref(a[0]).items.append(a[1]); return UNIT
@model(r"^<impl AsRef<str> as AsRef<str>>::as_ref$")
def _(eng, m, g, a): return a[0]
def tt_of(t):
    """token tuple -> proc_macro2::TokenTree value"""
    if t[0] == "g": return En("TokenTree", 0, "Group", [Agg("Group", [t[1], t[2]])])
    if t[0] == "i": return En("TokenTree", 1, "Ident", [IdentV(t[1])])
    if t[0] == "p": return En("TokenTree", 2, "Punct", [Agg("Punct", [t[1], t[2]])])
    return En("TokenTree", 3, "Literal", [Agg("Literal", [t[1]])])
def tok_of(x):
    """TokenTree value (or a token stream piece) -> list of token tuples"""
    x = deref(x)
    if isinstance(x, En) and x.enum == "TokenTree":
        p = deref(x.f[0])
        if x.name == "Group": return [("g", p.f[0], p.f[1])]
        if x.name == "Ident": return [("i", p.name)]
        if x.name == "Punct": return [("p", p.f[0], p.f[1])]
        return [("l", p.f[0])]
    if isinstance(x, TS): return list(x.t)
    if isinstance(x, IdentV): return [("i", x.name)]
    raise Unmodelled("token stream piece %r" % (x,))
@model(r"^<(?:proc_macro2::)?TokenStream as IntoIterator>::into_iter$")
def _(eng, m, g, a): return ListIt([tt_of(t) for t in deref(a[0]).t], byref=False)
MODELS.insert(0, MODELS.pop())   # must win over the generic IntoIterator model
@model(r"^<.* as Iterator>::take_while$")
def _(eng, m, g, a):
    out = []
    it = as_iter(eng, a[0])
    while True:
        x = it.next(eng)
        if x is None or not eng.branch(eng.call_value(a[1], [Slot([x], 0)])): break
        out.append(x)
    return ListIt(out, byref=False)
@model(r"^(?:proc_macro2::)?Punct::as_char$")
def _(eng, m, g, a): return Sc("char", ord(deref(a[0]).f[0]))
@model(r"^(?:proc_macro2::)?Punct::spacing$")
def _(eng, m, g, a): return En("Spacing", 1 if deref(a[0]).f[1] else 0, "Joint" if deref(a[0]).f[1] else "Alone", [])
@model(r"^(?:proc_macro2::)?Group::stream$")
def _(eng, m, g, a): return TS(list(deref(deref(a[0]).f[1]).t))
@model(r"^(?:proc_macro2::)?Group::delimiter$")
def _(eng, m, g, a):
    d = deref(a[0]).f[0]; return En("Delimiter", VARIANTS[("Delimiter", d)], d, [])
models_std.COLLECT_HOOKS.insert(0, (re.compile(r"^(proc_macro2::)?TokenStream$"), lambda eng, it, t: TS([tok for x in drain(eng, it) for tok in tok_of(x)])))
@model(r"^<(?:proc_macro2::)?TokenStream as Extend<(?:proc_macro2::)?TokenTree>>::extend$|^<(?:proc_macro2::)?TokenStream as FromIterator<.*>>::from_iter$")
def _(eng, m, g, a):
    src = deref(a[0] if "from_iter" in m.group(0) else a[1])
    toks = list(src.t) if isinstance(src, TS) else [tok for x in drain(eng, as_iter(eng, src)) for tok in tok_of(x)]
    if "from_iter" in m.group(0): return TS(toks)
    deref(a[0]).t += toks; return UNIT
MODELS.insert(0, MODELS.pop())
add_enum("Spacing", ["Alone", "Joint"])

def canon(v, out):
    v = deref(v); vd = v.f[0]
    if vd.name == "Composite":
        c = vd.f[0]
        if c.name == "Named":
            out.append("N{")
            for pair in c.f[0].items: out.append(deref(pair.f[0]).concrete() + ":"); canon(pair.f[1], out); out.append(",")
            out.append("}")
        else:
            out.append("U(")
            for x in c.f[0].items: canon(x, out); out.append(",")
            out.append(")")
    elif vd.name == "Variant":
        var = vd.f[0]
        out.append("V[" + deref(var.f[0]).concrete() + " "); canon(value(En("ValueDef", 0, "Composite", [var.f[1]])), out); out.append("]")
    elif vd.name == "BitSequence":
        out.append("B<" + "".join("1" if b.v else "0" for b in vd.f[0].items) + ">")
    else:
        p = vd.f[0]; x = p.f[0]
        if p.name == "Bool": out.append("bool:" + ("true" if x.v else "false"))
        elif p.name == "Char": out.append("char:" + chr(x.v))
        elif p.name == "String": out.append("str:" + deref(x).concrete())
        elif p.name == "U128": out.append("u:%d" % x.v)
        elif p.name == "I128": out.append("i:%d" % (x.v - (1 << 128) if x.v >> 127 else x.v))
        else: out.append(("u256:" if p.name == "U256" else "i256:") + "[" + ", ".join(str(b.v) for b in x.items) + "]")

_FRESH = [0]
@model(r"^rand::random$")
def _(eng, m, g, a):
    """thread-local generator: not tied to any seed - a fresh unconstrained value on every call"""
    t = g[0] if g else "u32"; _FRESH[0] += 1
    ma = re.match(r"^\[(\w+); (\d+)\]$", t)
    if ma: return VecV([Sc(ma.group(1), z3.BitVec("threadrng_%d_%d" % (_FRESH[0], i), INT_BITS[ma.group(1)])) for i in range(int(ma.group(2)))])
    return Sc(t, z3.Bool("threadrng_%d" % _FRESH[0]) if t == "bool" else z3.BitVec("threadrng_%d" % _FRESH[0], INT_BITS[t]))
@model(r"^rand::thread_rng$")
def _(eng, m, g, a):
    _FRESH[0] += 1; r = RngV(0); r.r = SymDraws(eng, "thread%d" % _FRESH[0]); return r

models_std.COLLECT_HOOKS.append((re.compile(r"^(scale_value::|scale_bits::)?(BitSequence|Bits)$"), lambda eng, it, t: VecV(drain(eng, it))))
