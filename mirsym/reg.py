"""Spike 2: SCALE decode of PortableRegistry into engine values."""
from engine import *
from models_tok import *

class Rd:
    def __init__(self, b): self.b = b; self.i = 0
    def u8(self): self.i += 1; return self.b[self.i-1]
    def compact(self):
        b0 = self.b[self.i]; mode = b0 & 3
        if mode == 0: self.i += 1; return b0 >> 2
        if mode == 1: v = int.from_bytes(self.b[self.i:self.i+2], "little") >> 2; self.i += 2; return v
        if mode == 2: v = int.from_bytes(self.b[self.i:self.i+4], "little") >> 2; self.i += 4; return v
        n = (b0 >> 2) + 4; v = int.from_bytes(self.b[self.i+1:self.i+1+n], "little"); self.i += 1 + n; return v
    def string(self):
        n = self.compact(); s = self.b[self.i:self.i+n].decode(); self.i += n; return s
    def vec(self, f): return [f() for _ in range(self.compact())]
    def opt(self, f): return f() if self.u8() else None
    def u32(self): v = int.from_bytes(self.b[self.i:self.i+4], "little"); self.i += 4; return v

PRIMS = ["Bool","Char","Str","U8","U16","U32","U64","U128","U256","I8","I16","I32","I64","I128","I256"]
TD = ["Composite", "Variant", "Sequence", "Array", "Tuple", "Primitive", "Compact", "BitSequence"]
def S(x): return StrV([x])
def sym(i): return Agg("UntrackedSymbol", [Sc("u32", i), UNIT])
def optv(x): return none() if x is None else some(x)
def strs(xs): return VecV([S(x) for x in xs])

def rd_field(r):
    name = r.opt(r.string); ty = r.compact(); tn = r.opt(r.string); docs = r.vec(r.string)
    return Agg("Field", [optv(name and S(name)) if name is not None else none(), sym(ty), optv(S(tn)) if tn is not None else none(), strs(docs)])
def rd_type(r):
    path = r.vec(r.string)
    params = r.vec(lambda: (r.string(), r.opt(r.compact)))
    k = r.u8()
    if k == 0: d = Agg("TypeDefComposite", [VecV(r.vec(lambda: rd_field(r)))])
    elif k == 1:
        def var():
            name = r.string(); fields = r.vec(lambda: rd_field(r)); idx = r.u8(); docs = r.vec(r.string)
            return Agg("Variant", [S(name), VecV(fields), Sc("u8", idx), strs(docs)])
        d = Agg("TypeDefVariant", [VecV(r.vec(var))])
    elif k == 2: d = Agg("TypeDefSequence", [sym(r.compact())])
    elif k == 3: ln = r.u32(); d = Agg("TypeDefArray", [Sc("u32", ln), sym(r.compact())])
    elif k == 4: d = Agg("TypeDefTuple", [VecV(r.vec(lambda: sym(r.compact())))])
    elif k == 5: p = r.u8(); d = En("TypeDefPrimitive", p, PRIMS[p], [])
    elif k == 6: d = Agg("TypeDefCompact", [sym(r.compact())])
    elif k == 7: st = r.compact(); od = r.compact(); d = Agg("TypeDefBitSequence", [sym(st), sym(od)])
    docs = r.vec(r.string)
    return Agg("Type", [Agg("Path", [strs(path)]),
                        VecV([Agg("TypeParameter", [S(n), optv(sym(t)) if t is not None else none()]) for n, t in params]),
                        En("TypeDef", k, TD[k], [d]), strs(docs)])
def decode_registry(b):
    r = Rd(b)
    tys = r.vec(lambda: (r.compact(), rd_type(r)))
    return Agg("PortableRegistry", [VecV([Agg("PortableType", [Sc("u32", i), t]) for i, t in tys])])
def syn_path(s): return SynV("Path", lex(s))
