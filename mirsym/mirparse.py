"""Spike: parser for rustc -Zunpretty=mir text."""
import re

class Fn:
    __slots__ = ("name", "args", "ltypes", "blocks", "ret_ty", "is_const", "const_value", "code")
    def __init__(self, name):
        self.name = name; self.args = []; self.ltypes = {}; self.blocks = {}; self.ret_ty = None; self.is_const = False

def split_top(s, sep=","):
    """split s on sep at bracket depth 0 (handles (), [], {}, <>)"""
    out = []; depth = 0; cur = []; i = 0; n = len(s); instr = False; inch = False
    while i < n:
        c = s[i]
        if instr:
            cur.append(c)
            if c == "\\": cur.append(s[i+1]); i += 1
            elif c == '"': instr = False
        elif inch:
            cur.append(c)
            if c == "\\": cur.append(s[i+1]); i += 1
            elif c == "'": inch = False
        elif c == '"': instr = True; cur.append(c)
        elif c == "'" and re.match(r"'(\\.|[^\\'])'", s[i:i+4] if s[i+1:i+2] == "\\" else s[i:i+3]):
            inch = True; cur.append(c)
        elif c in "([{": depth += 1; cur.append(c)
        elif c in ")]}": depth -= 1; cur.append(c)
        elif c == "<" and (i == 0 or s[i-1] != " " or s[i+1:i+2] != " "): depth += 1; cur.append(c)
        elif c == ">" and s[i-1] != "-" and (s[i-1] != " " or s[i+1:i+2] != " "): depth -= 1; cur.append(c)
        elif depth == 0 and s.startswith(sep, i):
            out.append("".join(cur).strip()); cur = []; i += len(sep) - 1
        else: cur.append(c)
        i += 1
    last = "".join(cur).strip()
    if last: out.append(last)
    return out

HDR = re.compile(r"^(fn|const|static) (.+?)(\(.*\))? (?:->|:) (.+?) (?:= )?\{$")

def parse_mir(text):
    fns = {}
    lines = text.split("\n")
    i = 0; n = len(lines)
    while i < n:
        ln = lines[i]
        m1 = re.match(r"^const (.+?): (.+?) = const (.+);$", ln)
        if m1:
            f = Fn(m1.group(1)); f.is_const = True; f.ret_ty = m1.group(2); f.blocks = {}; f.const_value = m1.group(3)
            fns[f.name] = f
        if (ln.startswith("fn ") or ln.startswith("const ") or ln.startswith("static ")) and ln.endswith("{"):
            # header:  fn NAME(ARGS) -> RET {     |  const NAME: TY = {
            if ln.startswith("fn "):
                body = ln[3:-2]
                # find args paren: first '(' at depth0 after name... name may contain <impl at ...> and ::{closure#0}
                depth = 0; pos = None
                for k, c in enumerate(body):
                    if c == "<": depth += 1
                    elif c == ">" and body[k-1] != "-": depth -= 1
                    elif c == "(" and depth == 0: pos = k; break
                name = body[:pos]
                # matching close paren
                d = 0
                for k in range(pos, len(body)):
                    if body[k] == "(": d += 1
                    elif body[k] == ")":
                        d -= 1
                        if d == 0: end = k; break
                args = body[pos+1:end]
                ret = body[end+1:].strip()
                ret = ret[2:].strip() if ret.startswith("->") else "()"
                f = Fn(name); f.ret_ty = ret
                for a in split_top(args):
                    m = re.match(r"_(\d+): (.*)$", a)
                    f.args.append(int(m.group(1))); f.ltypes[int(m.group(1))] = m.group(2)
            else:
                body = ln.split(" ", 1)[1][:-4]
                d = 0
                for k, c in enumerate(body):
                    if c == "<": d += 1
                    elif c == ">" and body[k-1] != "-": d -= 1
                    elif c == ":" and d == 0 and body[k+1] == " ": break
                f = Fn(body[:k]); f.ret_ty = body[k+2:]; f.is_const = True
            i += 1
            cur = None
            while i < n and lines[i] != "}":
                s = lines[i].strip()
                m = re.match(r"^let (?:mut )?_(\d+): (.*);$", s)
                if m: f.ltypes[int(m.group(1))] = m.group(2)
                else:
                    m = re.match(r"^(bb\d+)(?: \(cleanup\))?: \{$", s)
                    if m: cur = []; f.blocks[m.group(1)] = cur
                    elif cur is not None and s and s != "}" and not s.startswith("//"):
                        cur.append(s)
                i += 1
            fns[f.name] = f
        i += 1
    return fns
