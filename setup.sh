#!/bin/bash
# One-off set-up after a fresh restore (offline): warm the nightly dependency artefacts for MIR dumps and build the replay binary.
set -e
cd "$(dirname "$0")"
export CARGO_NET_OFFLINE=true
mkdir -p .work evidence
python3-vt mirsym/mirdump.py typegen description
(cd replay && CARGO_TARGET_DIR=/verif/.work/target-replay cargo build --offline --quiet)
echo setup done
