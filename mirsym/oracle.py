"""Spike 2: independent reader of the emitted token tree + wire-shape oracle."""
from engine import *
from models_tok import *
from models_std import eq_val, z_and

# ---------------- reader: tokens -> module tree
class P:
    def __init__(self, toks): self.t = toks; self.i = 0
    def peek(self, k=0): return self.t[self.i+k] if self.i+k < len(self.t) else None
    def eat(self): self.i += 1; return self.t[self.i-1]
    def is_p(self, ch, k=0):
        x = self.peek(k); return x is not None and x[0] == "p" and x[1] == ch
    def is_i(self, name=None, k=0):
        x = self.peek(k); return x is not None and x[0] == "i" and (name is None or x[1] == name)
    def expect_p(self, ch):
        assert self.is_p(ch), (ch, self.peek(), self.i); self.eat()
    def expect_i(self, name=None):
        assert self.is_i(name), (name, self.peek()); return self.eat()[1]
    def done(self): return self.i >= len(self.t)

def parse_attrs(p):
    attrs = []
    while p.is_p("#"):
        p.eat(); g = p.eat(); assert g[0] == "g" and g[1] == "Bracket"
        attrs.append(g[2].t)
    return attrs
def parse_type(p):
    x = p.peek()
    if x[0] == "g" and x[1] == "Parenthesis":
        p.eat(); q = P(x[2].t); els = []
        while not q.done():
            els.append(parse_type(q))
            if not q.done(): q.expect_p(",")
        return ("tuple", els)
    if x[0] == "g" and x[1] == "Bracket":
        p.eat(); q = P(x[2].t); el = parse_type(q); q.expect_p(";"); ln = q.eat(); assert q.done()
        return ("array", el, ln[1])
    segs = []; lead = False
    if p.is_p(":"): p.eat(); p.expect_p(":"); lead = True
    args = []
    while True:
        segs.append(p.expect_i())
        if p.is_p("<"):
            p.eat()
            while not p.is_p(">"):
                args.append(parse_type(p))
                if p.is_p(","): p.eat()
            p.eat(); break
        if p.is_p(":") and p.is_p(":", 1): p.eat(); p.eat(); continue
        break
    return ("path", lead, segs, args)
def parse_fields(g):
    q = P(g[2].t); out = []
    named = g[1] == "Brace"
    while not q.done():
        attrs = parse_attrs(q)
        if q.is_i("pub"): q.eat()
        name = None
        if named: name = q.expect_i(); q.expect_p(":")
        ty = parse_type(q)
        out.append((name, ty, attrs))
        if not q.done(): q.expect_p(",")
    return out
def parse_generics(p):
    ps = []
    if p.is_p("<"):
        p.eat()
        while not p.is_p(">"):
            ps.append(p.expect_i())
            if p.is_p(","): p.eat()
        p.eat()
    return ps
def parse_mod(p):
    mod = {"mods": {}, "items": {}, "uses": []}
    while not p.done():
        attrs = parse_attrs(p)
        p.expect_i("pub") if p.is_i("pub") else None
        kw = p.expect_i()
        if kw == "use":
            path = []
            while not p.is_p(";"): path.append(p.eat())
            p.eat(); mod["uses"].append(path)
        elif kw == "mod":
            name = p.expect_i(); g = p.eat(); assert g[0] == "g" and g[1] == "Brace"
            assert name not in mod["mods"], "duplicate module " + name
            mod["mods"][name] = parse_mod(P(g[2].t))
        elif kw == "struct":
            name = p.expect_i(); params = parse_generics(p)
            x = p.peek(); fields = []; form = "unit"
            if x and x[0] == "g": p.eat(); fields = parse_fields(x); form = "named" if x[1] == "Brace" else "tuple"
            if form != "named": p.expect_p(";")
            assert name not in mod["items"], "duplicate item " + name
            mod["items"][name] = {"kind": "struct", "params": params, "fields": fields, "form": form, "attrs": attrs}
        elif kw == "enum":
            name = p.expect_i(); params = parse_generics(p); g = p.eat(); q = P(g[2].t); variants = []
            while not q.done():
                vattrs = parse_attrs(q); vname = q.expect_i(); x = q.peek(); fields = []; form = "unit"
                if x and x[0] == "g": q.eat(); fields = parse_fields(x); form = "named" if x[1] == "Brace" else "tuple"
                variants.append((vname, vattrs, fields, form))
                if not q.done(): q.expect_p(",")
            mod["items"][name] = {"kind": "enum", "params": params, "variants": variants, "attrs": attrs}
        else: raise AssertionError("item keyword " + str(kw))
    return mod

# ---------------- wire shapes
PRIM_PATH = {"bool": "Bool", "char": "Char", "u8": "U8", "u16": "U16", "u32": "U32", "u64": "U64", "u128": "U128",
             "i8": "I8", "i16": "I16", "i32": "I32", "i64": "I64", "i128": "I128"}
def codec_attr(attrs, key):
    for a in attrs:
        if a and a[0] == ("i", "codec"):
            inner = a[1][2].t
            if inner and inner[0] == ("i", key): return inner
    return None

class Oracle:
    def __init__(self, eng, reg, root_name, module, compact_path):
        self.eng = eng; self.types = reg.f[0].items; self.root = root_name; self.mod = module; self.compact_path = compact_path
    def reg_ty(self, idsc):
        i = idsc
        if i.sym():
            k = self.eng.choose([(j, i.v == j) for j in range(len(self.types))])
            return self.types[k].f[1]
        return self.types[i.v].f[1]
    def shape_reg(self, idsc, depth):
        if depth == 0: return ("cut",)
        ty = self.reg_ty(idsc); d = ty.f[2]
        path = [s.concrete() for s in ty.f[0].f[0].items]
        if d.name == "Primitive": return ("prim", d.f[0].name)
        if d.name == "Sequence": return ("seq", self.shape_reg(d.f[0].f[0].f[0], depth - 1))
        if d.name == "Array": return ("array", d.f[0].f[0], self.shape_reg(d.f[0].f[1].f[0], depth - 1))
        if d.name == "Tuple": return ("tuple", [self.shape_reg(x.f[0], depth - 1) for x in d.f[0].f[0].items])
        if d.name == "Compact": return ("compact", self.shape_reg(d.f[0].f[0].f[0], depth - 1))
        if d.name == "Composite":
            if path == ["Cow"]: return self.shape_reg(d.f[0].f[0].items[0].f[1].f[0], depth)
            return ("struct", [self.field_reg(f, depth) for f in d.f[0].f[0].items])
        if d.name == "Variant":
            return ("enum", [(v.f[0].concrete(), v.f[2], [self.field_reg(f, depth) for f in v.f[1].items]) for v in d.f[0].f[0].items])
        raise NotImplementedError(d.name)
    def field_reg(self, f, depth):
        name = f.f[0].f[0].concrete() if f.f[0].idx == 1 else None
        return (name, self.shape_reg(f.f[1].f[0], depth - 1))
    def lookup(self, segs):
        assert segs[0] == self.root, segs
        m = self.mod
        for s in segs[1:-1]: m = m["mods"][s]
        return m["items"][segs[-1]]
    def shape_tok(self, ty, env, depth):
        if depth == 0: return ("cut",)
        if ty[0] == "tuple": return ("tuple", [self.shape_tok(t, env, depth - 1) for t in ty[1]])
        if ty[0] == "array":
            ln = ty[2]
            return ("array", ln, self.shape_tok(ty[1], env, depth - 1))
        _, lead, segs, args = ty
        if not lead and len(segs) == 1 and segs[0] in env: return env[segs[0]]   # generic parameter: already a shape
        if lead:
            p = "::".join(segs)
            if p.startswith("core::primitive::"): return ("prim", PRIM_PATH[segs[-1]])
            if p.endswith("::string::String"): return ("prim", "Str")
            if p.endswith("::vec::Vec"): return ("seq", self.shape_tok(args[0], env, depth - 1))
            if p.endswith("::boxed::Box"): return self.shape_tok(args[0], env, depth)
            if p == "core::option::Option":
                return ("enum", [("None", Sc("u8", 0), []), ("Some", Sc("u8", 1), [(None, self.shape_tok(args[0], env, depth - 2))])])
            if p == self.compact_path: return ("compact", self.shape_tok(args[0], env, depth - 1))
            raise NotImplementedError(p)
        item = self.lookup(segs)
        assert len(args) == len(item["params"]), ("arity", segs, args, item["params"])
        env2 = {pn: self.shape_tok(a, env, depth - 1) for pn, a in zip(item["params"], args)}
        if item["kind"] == "struct":
            return ("struct", [self.field_tok(f, env2, depth) for f in item["fields"] if not self.is_marker(f)])
        out = []
        for vname, vattrs, fields, form in item["variants"]:
            if vname == "__Ignore": continue
            idx = codec_attr(vattrs, "index")
            out.append((vname, Sc("u8", int(idx[2][1])) if isinstance(idx[2][1], str) else idx[2][1][1], [self.field_tok(f, env2, depth) for f in fields]))
        return ("enum", out)
    def is_marker(self, f):
        name, ty, attrs = f
        return ty[0] == "path" and ty[2][-1] == "PhantomData"
    def field_tok(self, f, env, depth):
        name, ty, attrs = f
        s = self.shape_tok(ty, env, depth - 1)
        if codec_attr(attrs, "compact") is not None: s = ("compact", s)
        return (name, s)
    def eq(self, a, b):
        """returns python bool / z3 formula"""
        if a[0] == "cut" or b[0] == "cut": return True
        if a[0] != b[0]: return False
        k = a[0]
        if k == "prim": return a[1] == b[1]
        if k in ("seq", "compact"): return self.eq(a[1], b[1])
        if k == "array": return z_and([self.leaf_eq(a[1], b[1]), self.eq(a[2], b[2])])
        if k == "tuple": return len(a[1]) == len(b[1]) and z_and([self.eq(x, y) for x, y in zip(a[1], b[1])])
        if k == "struct": return len(a[1]) == len(b[1]) and z_and([x[0] == y[0] and self.eq(x[1], y[1]) for x, y in zip(a[1], b[1])])
        if k == "enum":
            return len(a[1]) == len(b[1]) and z_and([x[0] == y[0] and z_and([self.leaf_eq(x[1], y[1])] + [len(x[2]) == len(y[2])] + [p[0] == q[0] and self.eq(p[1], q[1]) for p, q in zip(x[2], y[2])]) for x, y in zip(a[1], b[1])])
        raise NotImplementedError(k)
    def leaf_eq(self, x, y):
        def norm(v):
            if isinstance(v, Sc): return v
            if isinstance(v, str): return Sc("u64", int(v.replace("usize", "")))
            if isinstance(v, tuple) and v[0] == "lit": return v[1]
            raise TypeError(v)
        x, y = norm(x), norm(y)
        if not x.sym() and not y.sym(): return x.v == y.v
        xv = x.v if x.sym() else z3.BitVecVal(x.v, 64); yv = y.v if y.sym() else z3.BitVecVal(y.v, 64)
        if xv.size() < 64: xv = z3.ZeroExt(64 - xv.size(), xv)
        if yv.size() < 64: yv = z3.ZeroExt(64 - yv.size(), yv)
        return xv == yv
