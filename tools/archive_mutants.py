#!/usr/bin/env python3
"""archive_mutants.py <round> <scratch-root> <verify-log>... : copies confirmed (RESULT ... OK) sub-agent mutants from
<scratch-root>/<ID>/out/m<i> to seeded/<ID>-r<round>m<i>/ with a meta.json"""
import sys, os, re, json, shutil, subprocess
rnd, root = sys.argv[1], sys.argv[2]
THEMES = {"3": "triggers narrow in value space", "4": "interactions and state", "5": "two cooperating sites, multi-step sequences, unusual but valid input shapes"}
titles = {json.loads(l)["id"]: json.loads(l).get("title") for l in open("/verif/properties.jsonl")}
head = subprocess.run("git -C /repo rev-parse --short HEAD", shell=True, capture_output=True, text=True).stdout.strip()
for log in sys.argv[3:]:
    for l in open(log):
        m = re.match(r"RESULT %s/(C\d\d)/out/(m\d) (.*)" % re.escape(root), l.strip())
        if not m: continue
        pid, mi, res = m.groups()
        if res != "OK": print("NOT ARCHIVED", pid, mi, res); continue
        src = os.path.join(root, pid, "out", mi); name = "%s-r%s%s" % (pid, rnd, mi); dst = os.path.join("/verif/seeded", name)
        if os.path.exists(os.path.join(dst, "meta.json")): continue
        os.makedirs(dst, exist_ok=True)
        for f in ("patch.diff", "demo.diff", "notes.md"): shutil.copy(os.path.join(src, f), dst)
        files = re.findall(r"^\+\+\+ b/(\S+)", open(os.path.join(src, "patch.diff")).read(), re.M)
        meta = {"id": name, "breaks_property": pid, "property_title": titles[pid], "files_changed": files, "round": int(rnd),
                "needs_to_manifest": "see notes.md (written by the sub-agent that produced the change)",
                "origin": "fresh sub-agent (round %s: %s) given only the property text and a scratch worktree of /repo at the repaired HEAD %s" % (rnd, THEMES.get(rnd, "subtle changes"), head),
                "confirmed_by_me": {"script": "tools/verify_mutant.sh <worktree> <dir>", "patch_only_suite": "green", "demo_only": "green",
                                    "patch_plus_demo": "red (the demonstration is the only failure)", "result": "OK"},
                "checks_run": {}}
        json.dump(meta, open(os.path.join(dst, "meta.json"), "w"), indent=1); print("archived", name)
