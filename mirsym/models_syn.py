"""Spike 2: structured syn::Path / Type model (parse from tokens, print back, field layouts as in syn 2.0.87)."""
import re
from engine import *
from models_std import *
import models_std, models_tok
from models_tok import *
from oracle import P

def opt_unit(b): return some(UNIT) if b else none()
def PA_none(): return En("PathArguments", 0, "None", [])

PAREN_ARGS = [False]      # Fn(A) -> B sugar only parses in bound position; harnesses switch it on to build such paths
def parse_path(p):
    lead = False
    if p.is_p(":") and p.is_p(":", 1): p.eat(); p.eat(); lead = True
    segs = []
    while True:
        ident = IdentV(p.expect_i()); args = PA_none()
        colon2 = False
        if p.is_p(":") and p.is_p(":", 1) and p.is_p("<", 2): p.eat(); p.eat(); colon2 = True
        if p.is_p("<"):
            p.eat(); items = []; trailing = False
            while not p.is_p(">"):
                items.append(parse_generic_arg(p)); trailing = False
                if p.is_p(","): p.eat(); trailing = True
            p.eat()
            pv = PunctV(items, ","); pv.trailing = trailing
            args = En("PathArguments", 1, "AngleBracketed", [Agg("AngleBracketedGenericArguments", [opt_unit(colon2), UNIT, pv, UNIT])])
        elif p.peek() is not None and p.peek()[0] == "g" and p.peek()[1] == "Parenthesis" and PAREN_ARGS[0]:
            gtok = p.eat()
            args = En("PathArguments", 2, "Parenthesized", [SynV("ParenthesizedGenericArguments", [gtok])])
        segs.append(Agg("PathSegment", [ident, args]))
        if p.is_p(":") and p.is_p(":", 1) and p.is_i(None, 2): p.eat(); p.eat(); continue
        break
    pv = PunctV(segs, "::"); pv.trailing = False
    return Agg("Path", [opt_unit(lead), pv])

def parse_generic_arg(p):
    x = p.peek()
    if x[0] == "p" and x[1] == "'":
        p.eat(); name = p.expect_i()
        return En("GenericArgument", 0, "Lifetime", [SynV("Lifetime", [("p", "'", True), ("i", name)])])
    if x[0] == "l": p.eat(); return En("GenericArgument", 2, "Const", [SynV("Expr", [x])])
    return En("GenericArgument", 1, "Type", [parse_syn_type(p)])

def parse_syn_type(p):
    x = p.peek()
    if x[0] == "g" and x[1] == "Parenthesis":
        p.eat(); q = P(x[2].t); els = []; trailing = False
        while not q.done():
            els.append(parse_syn_type(q)); trailing = False
            if not q.done(): q.expect_p(","); trailing = True
        pv = PunctV(els, ","); pv.trailing = trailing
        return En("Type", 13, "Tuple", [Agg("TypeTuple", [UNIT, pv])])
    if x[0] == "g" and x[1] == "Bracket":
        p.eat(); q = P(x[2].t); el = parse_syn_type(q); q.expect_p(";"); ln = q.t[q.i:]
        return En("Type", 0, "Array", [Agg("TypeArray", [UNIT, mk_box(el), UNIT, SynV("Expr", list(ln))])])
    if x[0] == "p" and x[1] == "&":
        p.eat(); lt = none(); mut = none()
        if p.is_p("'"): p.eat(); lt = some(SynV("Lifetime", [("p", "'", True), ("i", p.expect_i())]))
        if p.is_i("mut"): p.eat(); mut = some(UNIT)
        return En("Type", 10, "Reference", [Agg("TypeReference", [UNIT, lt, mut, mk_box(parse_syn_type(p))])])
    if x[0] == "p" and x[1] == "*":
        rest = p.t[p.i:]; p.i = len(p.t)
        return En("Type", 14, "Verbatim", [TS(list(rest))])
    return En("Type", 8, "Path", [Agg("TypePath", [none(), parse_path(p)])])

def print_syn(eng, x, ts):
    """returns True if handled"""
    if isinstance(x, Agg):
        if x.tag == "Path":
            if x.f[0].idx == 1: ts.t += [("p", ":", True), ("p", ":", False)]
            print_punct(eng, x.f[1], ts); return True
        if x.tag == "PathSegment":
            ts.t.append(("i", x.f[0].name)); print_syn(eng, x.f[1], ts); return True
        if x.tag == "TypePath": print_syn(eng, x.f[1], ts); return True
        if x.tag == "AngleBracketedGenericArguments":
            if x.f[0].idx == 1: ts.t += [("p", ":", True), ("p", ":", False)]
            ts.t.append(("p", "<", False)); print_punct(eng, x.f[2], ts); ts.t.append(("p", ">", False)); return True
        if x.tag == "TypeTuple":
            inner = TS(); print_punct(eng, x.f[1], inner); ts.t.append(("g", "Parenthesis", inner)); return True
        if x.tag == "TypeReference":
            ts.t.append(("p", "&", False))
            if x.f[1].idx == 1: ts.t += x.f[1].f[0].toks
            if x.f[2].idx == 1: ts.t.append(("i", "mut"))
            if not print_syn(eng, deref(x.f[3]), ts): to_tokens_orig(eng, x.f[3], ts)
            return True
        if x.tag == "TypeArray":
            inner = TS(); print_syn(eng, deref(x.f[1]), inner); inner.t.append(("p", ";", False)); inner.t += x.f[3].toks
            ts.t.append(("g", "Bracket", inner)); return True
    if isinstance(x, En):
        if x.enum == "PathArguments":
            if x.idx == 1: print_syn(eng, x.f[0], ts)
            elif x.idx == 2: to_tokens_orig(eng, x.f[0], ts)
            return True
        if x.enum == "GenericArgument" or x.enum == "Type":
            v = x.f[0]
            if not print_syn(eng, deref(v), ts): to_tokens_orig(eng, v, ts)
            return True
    return False
def print_punct(eng, pv, ts):
    for i, it in enumerate(pv.items):
        if i:
            for j, ch in enumerate(pv.sep): ts.t.append(("p", ch, j < len(pv.sep) - 1))
        if not print_syn(eng, deref(it), ts): to_tokens_orig(eng, it, ts)
    if getattr(pv, "trailing", False) and pv.items:
        for j, ch in enumerate(pv.sep): ts.t.append(("p", ch, j < len(pv.sep) - 1))

to_tokens_orig = models_tok.to_tokens
def to_tokens2(eng, v, ts):
    x = deref(v)
    if print_syn(eng, x, ts): return
    if isinstance(x, PunctV): print_punct(eng, x, ts); return
    to_tokens_orig(eng, v, ts)
models_tok.to_tokens = to_tokens2
# rebind inside the registered models (they look the name up in models_tok's globals at call time)

def parse_kind(kind, toks):
    p = P(list(toks))
    if kind == "Path": r = parse_path(p)
    elif kind == "TypePath": r = Agg("TypePath", [none(), parse_path(p)])
    elif kind == "Type": r = parse_syn_type(p)
    elif kind == "PathSegment": r = parse_path(p).f[1].items[0]
    else: return SynV(kind, list(toks))
    assert p.done(), ("trailing tokens", kind, toks[p.i:])
    return r

# override the opaque parse models (later registrations are appended; insert in front)
def _parse(eng, m, g, a):
    kind = g[0].split("::")[-1]; ts = deref(a[0])
    if kind == "Ident": return IdentV(ts.t[0][1])
    try: return parse_kind(kind, ts.t)
    except (AssertionError, IndexError, TypeError) as e:
        raise Panic("parse_quote!: tokens do not parse as syn::%s: %s" % (kind, tok_str(ts)[:200]))
def _parse_str(eng, m, g, a):
    kind = g[0].split("::")[-1]; s = deref(a[0]).concrete()
    try: toks = lex(s)
    except ValueError: return err(Agg("syn::Error", [StrV(["lex error"])]))
    if kind == "Ident":
        if len(toks) != 1 or toks[0][0] != "i" or toks[0][1] in KEYWORDS: return err(Agg("syn::Error", [StrV(["not an ident"])]))
        return ok(IdentV(toks[0][1]))
    try: return ok(parse_kind(kind, toks))
    except AssertionError: return err(Agg("syn::Error", [StrV(["parse error"])]))
MODELS.insert(0, (re.compile(r"^syn::__private::parse$"), _parse))
MODELS.insert(0, (re.compile(r"^syn::parse_str$"), _parse_str))
MODELS.insert(0, (re.compile(r"^<PathSegment as From<proc_macro2::Ident>>::from$"), lambda eng, m, g, a: Agg("PathSegment", [a[0], PA_none()])))
MODELS.insert(0, (re.compile(r"^<.* as Spanned>::span$"), lambda eng, m, g, a: UNIT))
MODELS.insert(0, (re.compile(r"^PathArguments::is_empty$|^syn::PathArguments::is_empty$"), lambda eng, m, g, a: B(deref(a[0]).idx == 0 or (deref(a[0]).idx == 1 and not deref(a[0]).f[0].f[2].items))))
MODELS.insert(0, (re.compile(r"^<proc_macro2::Ident as PartialEq<&?str>>::eq$"), lambda eng, m, g, a: B(deref(a[0]).name == deref(a[1]).concrete())))
def _borrow(eng, m, g, a):
    x = a[0]
    while isinstance(x, Slot) and isinstance(x.get(), Slot): x = x.get()
    return x
MODELS.insert(0, (re.compile(r"^<.* as (std::borrow::)?Borrow<.*>>::borrow$"), _borrow))
import reg
reg.syn_path = lambda s: parse_kind("Path", lex(s))

def _attr_path(eng, m, g, a):
    """syn::Attribute::path(): the path at the head of the attribute's meta"""
    at = deref(a[0]); inner = at.toks[1][2].t
    k = 0
    while k < len(inner) and (inner[k][0] == "i" or (inner[k][0] == "p" and inner[k][1] == ":")): k += 1
    return Slot([parse_kind("Path", inner[:k])], 0)
MODELS.insert(0, (re.compile(r"^(syn::)?Attribute::path$"), _attr_path))

def _punct_new(eng, m, g, a):
    sep = "::"
    gs = " ".join(g)
    if "Comma" in gs or "Token![,]" in gs or "," in gs.replace("::", ""): sep = ","
    if "PathSep" in gs or "Colon2" in gs or "PathSegment" in gs: sep = "::"
    p = PunctV([], sep); return p
MODELS.insert(0, (re.compile(r"^(syn::punctuated::)?Punctuated::new$|^<(syn::punctuated::)?Punctuated<.*> as (std::default::)?Default>::default$"), _punct_new))
MODELS.insert(0, (re.compile(r"^(syn::punctuated::)?Punctuated::(push|push_value)$"), lambda eng, m, g, a: (deref(a[0]).items.append(a[1]), UNIT)[1]))
MODELS.insert(0, (re.compile(r"^(syn::punctuated::)?Punctuated::push_punct$"), lambda eng, m, g, a: UNIT))
MODELS.insert(0, (re.compile(r"^(syn::punctuated::)?Punctuated::(pop)$"), lambda eng, m, g, a: (lambda it: some(Agg("Pair::End", [it.pop()])) if it else none())(deref(a[0]).items)))
MODELS.insert(0, (re.compile(r"^<(syn::punctuated::)?Punctuated<.*> as Extend<.*>>::extend$"), lambda eng, m, g, a: (deref(a[0]).items.extend(drain(eng, as_iter(eng, a[1]))), UNIT)[1]))
MODELS.insert(0, (re.compile(r"^<(syn::punctuated::)?Punctuated<.*> as FromIterator<.*>>::from_iter$"), lambda eng, m, g, a: PunctV(drain(eng, as_iter(eng, a[0])), "," if ("Comma" in " ".join(g) or "Comma" in m.group(0) or "Token![,]" in m.group(0)) else "::")))
# `syn::Path::from(ident)` / `From<PathSegment>`: a single-segment path without a leading `::`
def _path_from_ident(eng, m, g, a):
    p = parse_kind("Path", [("i", deref(a[0]).name)])
    return p
MODELS.insert(0, (re.compile(r"^<(?:syn::)?Path as From<(?:proc_macro2::)?Ident>>::from$"), _path_from_ident))
