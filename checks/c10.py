"""C10: documented failure conditions are errors, not panics, and the only ones."""
import os, sys
sys.path.insert(0, os.path.dirname(os.path.abspath(__file__)))
from gen_common import *
import c01

ID = "C10"
CRATES = ("typegen",)
FUNCTIONS = c01.FUNCTIONS + ["utils::ensure_unique_type_paths", "TypegenError variants"]
MODELS = c01.MODELS
ASSUMPTIONS = ["base registries: the corpus registries (unique paths, or de-duplicated first); no recursive derives", "exactly one fault per case; the fault value itself is symbolic (any wrong id / any missing id)",
               "mixed named/unnamed faults are injected into namespaced struct/enum entries (the ones an item is generated for)"]
BOUNDS = {"quick": {"fault sites": "every entry id; every field of every item; every referenced id position", "base registries": "corpus"}, "thorough": {"fault sites": "same, plus every settings variant"}}
OUTSIDE = ["multiple simultaneous faults", "identifiers syn rejects (excluded by well-formedness)"]
GLOBAL_WITNESSES = ("Err:RegistryTypeIdsInvalid", "Err:InvalidFields", "Err:CompactPathNone", "Err:DecodedBitsPathNone", "Err:TypeNotFound", "Ok")

NOPATHS = Settings(["codec_attrs"])
def on_panic_factory(settings, dedup=False):
    def on_panic(eng, reg, msg):
        try:
            m = eng.model(); creg = concretize(reg, m)
            case = replay_gen_case(creg, settings, dedup=dedup)
        except Exception: case = None; creg = None
        return {"outcome": "panic", "violations": [{"what": "panic: %s | registry: %s" % (msg, "; ".join(describe(creg, 8)) if creg else "?"), "case": case, "kind": "panic"}]}
    return on_panic

def expect_family(name, mk, settings, expect, dedup_too=False):
    """expect(reg) -> (variant, payload-check(eng, payload)->bool-or-z3) ; run generation (and dedup) and compare"""
    def run(eng, reg):
        res = {"violations": [], "outcome": []}
        m = eng.model(); creg = concretize(reg, m)
        want, payload_ok = expect(reg)
        for mode in (("gen",) + (("dedup",) if dedup_too else ())):
            if mode == "gen":
                out, regv, s = generate(eng, regdsl._clone(reg), settings)
                case = replay_gen_case(creg, settings)
            else:
                regv = to_engine(regdsl._clone(reg))
                r = eng.call("ensure_unique_type_paths", [], [Slot([regv], 0)])
                out = {"result": "Err", "err": err_parts(r.f[0])} if r.idx == 1 else {"result": "Ok"}
                case = {"op": "dedup", "reg": regdsl.encode(creg).hex()}
            got = "Ok" if out["result"] == "Ok" else "Err:" + out["err"][0]
            res["outcome"].append(got)
            okv = got in want if isinstance(want, (list, tuple, set)) else got == want
            if not okv:
                res["violations"].append({"what": "%s: expected %s, got %s | registry: %s" % (mode, want, got, "; ".join(describe(creg, 10))), "case": case, "kind": "wrong-outcome", "want": sorted(want) if not isinstance(want, str) else [want]})
            elif payload_ok is not None and out["result"] == "Err":
                c = payload_ok(out["err"][1])
                if not eng.holds(c):
                    mm = eng.model(z3.Not(c)) if not isinstance(c, bool) else m
                    cr = concretize(reg, mm)
                    res["violations"].append({"what": "%s: error payload wrong (%r) | registry: %s" % (mode, out["err"][1], "; ".join(describe(cr, 10))),
                                              "case": replay_gen_case(cr, settings) if mode == "gen" else {"op": "dedup", "reg": regdsl.encode(cr).hex()}, "kind": "wrong-payload", "want": [want]})
            if mode == "gen":
                exp = {"result": out["result"]}
                if out["result"] == "Err":
                    exp["err_variant"] = out["err"][0]
                    pv = out["err"][1]
                    if out["err"][0] == "TypeNotFound": exp["err_payload"] = str(regdsl._cv(pv, m))
                    if out["err"][0] == "RegistryTypeIdsInvalid": exp["err_payload"] = "%s %s" % (regdsl._cv(pv[0], m), regdsl._cv(pv[1], m))
                else: exp["tokens"] = plain_tok_str(concretize_tokens(out["tokens"], m))
                res["validate"] = dict(case, expect=exp)
        return res
    f = Family(name, mk, run, target_prefixes=1, on_panic=on_panic_factory(settings))
    f.partition = name.startswith(("idfault", "missing"))        # symbolic fault values: the explored paths must cover every value
    return f

def visible(reg):
    """entries the generator reads: items (namespaced struct/enum) and whatever their fields / elements / the
    parameters of referenced path types lead to; the private field lists of prelude entries are not followed"""
    seen = set(); referenced = set(); work = [i for i in user_ids(reg)]
    while work:
        i = work.pop()
        if i in seen or i >= len(reg): continue
        seen.add(i); t = reg[i]; k = t["def"][0]
        nxt = []
        if k in ("composite", "variant"):
            if len(t["path"]) >= 2: nxt += refs(t)
            if i in referenced or len(t["path"]) < 2: nxt += [p for _, p in t["params"] if p is not None]
        else: nxt += refs(t)
        for j in nxt:
            first = j not in referenced
            referenced.add(j)
            if first and isinstance(j, int) and j < len(reg) and j in seen and reg[j]["def"][0] in ("composite", "variant") and reg[j]["params"]: seen.discard(j)   # revisit once to follow its parameters
            work.append(j)
    return seen, referenced
def ref_sites(reg):
    """(entry, accessor description, getter/setter) for every referenced id position the generator reads"""
    out = []; vis, referenced = visible(reg)
    for i, t in enumerate(reg):
        if i not in vis: continue
        d = t["def"]; k = d[0]
        for pi, (n, p) in enumerate(t["params"]):
            if p is not None and i in referenced: out.append((i, "param%d" % pi, ("param", pi)))
        if k in ("composite", "variant") and len(t["path"]) < 2: continue      # private field lists of prelude entries are never read by the generator
        if k == "composite":
            for fi, f in enumerate(d[1]): out.append((i, "field%d" % fi, ("field", None, fi)))
        elif k == "variant":
            for vi, v in enumerate(d[1]):
                for fi, f in enumerate(v["fields"]): out.append((i, "v%d.field%d" % (vi, fi), ("field", vi, fi)))
        elif k in ("sequence", "compact"): out.append((i, k, ("def1",)))
        elif k == "array": out.append((i, "array", ("def2",)))
        elif k == "tuple":
            for ei in range(len(d[1])): out.append((i, "tuple%d" % ei, ("tuple", ei)))
        elif k == "bitseq": out.append((i, "store", ("def1",))); out.append((i, "order", ("def2",)))
    return out
def set_ref(reg, i, acc, val):
    t = reg[i]; d = t["def"]
    if acc[0] == "param": t["params"][acc[1]] = (t["params"][acc[1]][0], val)
    elif acc[0] == "field":
        f = d[1][acc[2]] if acc[1] is None else d[1][acc[1]]["fields"][acc[2]]
        f["ty"] = val
    elif acc[0] == "def1": t["def"] = (d[0], val) + tuple(d[2:])
    elif acc[0] == "def2": t["def"] = (d[0], d[1], val)
    elif acc[0] == "tuple": d[1][acc[1]] = val

def families(eng, tier, seed):
    fams = []; C = corpus()
    def unique_paths(r):
        ps = [tuple(t["path"]) for t in r if len(t["path"]) >= 2]
        return len(ps) == len(set(ps))
    bases = {}
    for n, r in C.items():
        if n in ("duration", "phantom_field"): continue
        if unique_paths(r): bases[n] = r; continue
        # reachability-closed sub-registries with unique paths (one instantiation of each generic definition)
        seen = set()
        for i in user_ids(r):
            sub, _ = restrict(r, [i])
            key = regdsl.encode(sub)
            if unique_paths(sub) and len(sub) >= 3 and key not in seen and len(seen) < 4: seen.add(key); bases["%s@%d" % (n, i)] = sub
    small = [n for n in bases if len(bases[n]) <= (20 if tier == "quick" else 60)]
    # (e) fault-free: Ok / DuplicateTypePath, never a panic - every corpus registry incl. the prelude extras
    for n, r in C.items():
        for si, sv in enumerate([STD, c01.settings_variants(tier)[1]]):
            fams.append(expect_family("faultfree-%s-s%d" % (n, si), (lambda r: lambda eng: symbolize_leaves(eng, r))(r), sv, lambda reg: ({"Ok", "Err:DuplicateTypePath"}, None), dedup_too=False))
    SUBS = {"assoc_skip": ["subst replay::corpus::assoc::Hdr<T> => ::ext::H<T>"], "generics": ["subst replay::corpus::generics::G<A> => ::ext::B<A, A>", "subst replay::corpus::generics::G2<A, B, C> => ::ext::R<C, B, A>"],
            "assoc_noskip": ["subst replay::corpus::assoc::HdrNoSkip<T, U> => ::ext::H<U, T>"], "phantom": ["subst replay::corpus::generics::NamedPh<A, B> => ::ext::N<B>", "subst replay::corpus::generics::Ph<A, B> => ::ext::P<B>"],
            "collections": ["subst BTreeMap<K, V, W> => ::ext::M<W, V, K>"], "containers": ["subst Option<T, U> => ::ext::O<U>"]}
    for n, ds in SUBS.items():
        for k, dsub in enumerate(ds):
            fams.append(expect_family("faultfree-subst-%s-%d" % (n, k), (lambda r: lambda eng: regdsl._clone(r))(C[n]), STD + Settings([dsub]), lambda reg: ({"Ok", "Err:DuplicateTypePath"}, None)))
    # (a) id mismatch at every entry: id is ANY value different from the index
    for n in small:
        r = bases[n]
        for i in range(len(r)):
            def mk(eng, r=r, i=i):
                reg = regdsl._clone(r); x = z3.BitVec("badid", 32); eng.assume(x != i); reg[i]["id"] = x; reg[i]["_fault"] = i; return reg
            def exp(reg, i=i):
                x = reg[i]["id"]
                return "Err:RegistryTypeIdsInvalid", (lambda pv: z3.And(regdsl._sc(pv[0], "u32").v == x, regdsl._sc(pv[1], "u32").v == i) if not isinstance(pv[0], int) else z3.And(z3.BitVecVal(pv[0], 32) == x, pv[1] == i))
            fams.append(expect_family("idfault-%s-%d" % (n, i), mk, STD, exp, dedup_too=True))
    # (a') the same fault on an entry whose path is substituted (a substituted type is skipped by the emitter, not by the check)
    for n in (small[:4] if tier == "quick" else small):
        r = bases[n]
        for i in user_ids(r):
            if len(r[i]["path"]) < 2: continue
            def mk(eng, r=r, i=i):
                reg = regdsl._clone(r); x = z3.BitVec("badid", 32); eng.assume(x != i); reg[i]["id"] = x; reg[i]["_fault"] = i; return reg
            def exp(reg, i=i):
                x = reg[i]["id"]
                return "Err:RegistryTypeIdsInvalid", (lambda pv: z3.And(regdsl._sc(pv[0], "u32").v == x, regdsl._sc(pv[1], "u32").v == i) if not isinstance(pv[0], int) else z3.And(z3.BitVecVal(pv[0], 32) == x, pv[1] == i))
            fams.append(expect_family("idfault-substituted-%s-%d" % (n, i), mk, STD + Settings(["subst %s => ::ext::Subst" % "::".join(r[i]["path"])]), exp, dedup_too=False))
    # (b) mixed named / unnamed
    for n in small:
        r = bases[n]
        for ti in user_ids(r):
            t = r[ti]
            lists = [(None, t["def"][1])] if t["def"][0] == "composite" else [(vi, v["fields"]) for vi, v in enumerate(t["def"][1])]
            for vi, fl in lists:
                if len(fl) < 2: continue
                for fi in range(len(fl)):
                    def mk(eng, r=r, ti=ti, vi=vi, fi=fi):
                        reg = regdsl._clone(r); t = reg[ti]
                        f = t["def"][1][fi] if vi is None else t["def"][1][vi]["fields"][fi]
                        f["name"] = None if f["name"] is not None else "injected"
                        return reg
                    fams.append(expect_family("mixed-%s-%d.%s.%d" % (n, ti, vi, fi), mk, STD, lambda reg: ("Err:InvalidFields", None)))
    # (c) compact / bit sequence without configured path
    for n, r in bases.items():
        has_c = any(t["def"][0] == "compact" for t in r); has_b = any(t["def"][0] == "bitseq" for t in r)
        if has_c: fams.append(expect_family("nocompactpath-%s" % n, (lambda r: lambda eng: regdsl._clone(r))(r), Settings(["bits_path ::b::DecodedBits", "codec_attrs"]), lambda reg: ("Err:CompactPathNone", None)))
        if has_b: fams.append(expect_family("nobitspath-%s" % n, (lambda r: lambda eng: regdsl._clone(r))(r), Settings(["compact_path ::c::Compact", "codec_attrs"]), lambda reg: ("Err:DecodedBitsPathNone", None)))
    # (d) one referenced id missing (any value >= N)
    for n in small:
        r = bases[n]
        for (i, desc, acc) in ref_sites(r):
            def mk(eng, r=r, i=i, acc=acc):
                reg = regdsl._clone(r); x = z3.BitVec("missing", 32); eng.assume(z3.UGE(x, len(reg))); set_ref(reg, i, acc, x); reg[0]["_x"] = x; return reg
            def exp(reg):
                x = reg[0]["_x"]
                return "Err:TypeNotFound", (lambda pv: (pv if not isinstance(pv, int) else z3.BitVecVal(pv, 32)) == x)
            fams.append(expect_family("missing-%s-%d.%s" % (n, i, desc), mk, STD, exp))
    return fams

def confirm(v, real):
    if "panic" in real: return True
    if v.get("kind") == "panic": return False
    got = "Ok" if real.get("result") == "Ok" else "Err:" + str(real.get("err_variant"))
    if v.get("kind") == "wrong-outcome": return got not in v["want"]
    if v.get("kind") == "wrong-payload":
        if got not in v["want"]: return True
        reg = regdsl.decode(bytes.fromhex(v["case"]["reg"]))
        if got == "Err:TypeNotFound":
            missing = [x for t in reg for x in refs(t) + [p for _, p in t["params"] if p is not None] if x >= len(reg)]
            return real.get("err_payload") != str(missing[0])
        if got == "Err:RegistryTypeIdsInvalid":
            i = next(i for i, t in enumerate(reg) if t.get("id", i) != i)
            return real.get("err_payload") != "%d %d" % (reg[i]["id"], i)
    return False

def classify(v):
    w = v["what"]
    if v.get("kind") == "panic" or w.startswith("panic"):
        for k in ("Unknown prelude type 'Duration'", "Unknown prelude type 'PhantomData'"):
            if k in w: return "panic:" + k
        return "panic:other"
    fam = v.get("family", "")
    if fam.startswith("missing-") and ".param" in fam and "got Ok" in w: return "missing-id-in-unresolved-type-parameter"
    return v.get("kind", "other") + ":" + fam.split("-")[0]

if __name__ == "__main__":
    main(sys.modules[__name__])
