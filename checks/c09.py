"""C09: settings switches are honoured everywhere and are orthogonal."""
import os, sys, itertools
sys.path.insert(0, os.path.dirname(os.path.abspath(__file__)))
from gen_common import *
import c01

ID = "C09"
CRATES = ("typegen",)
FUNCTIONS = c01.FUNCTIONS + ["AllocCratePath::to_tokens", "TypeGeneratorSettings builders"]
MODELS = c01.MODELS
ASSUMPTIONS = ["registries: corpus (every heap-allocated prelude type, documented types and variants, compact fields, bit sequences, unused parameters); array lengths / variant indices symbolic",
               "in the 2^6 switch families root names and custom paths are not path segments of the registry; the rootname-* families rename the root to every path segment (crate, module and type names) and to core/alloc/std and compare against a placeholder root", "all 2^6 combinations of the six switches are executed on each registry inside one symbolic path"]
BOUNDS = {"quick": {"switch combinations": 64, "registries": "corpus registries with <= 20 entries + collections"}, "thorough": {"switch combinations": 64, "registries": "all corpus registries"}}
OUTSIDE = ["derives/substitutes are held fixed (C07, C08)"]
GLOBAL_WITNESSES = ("Ok",)

SW = {"alloc": [None, "alloc ::my::alloc_crate"], "docs": ["docs 1", "docs 0"], "codec": ["codec_attrs", None], "root": [None, "mod_name other_root"],
      "compact": ["compact_path ::parity_scale_codec::Compact", "compact_path my_codec::Cpt"], "bits": ["bits_path ::scale_bits::DecodedBits", "bits_path bv::Bits"]}
ORDER = ["alloc", "docs", "codec", "root", "compact", "bits"]
def combo_settings(bits):
    return Settings([SW[k][b] for k, b in zip(ORDER, bits) if SW[k][b] is not None])

def lex_path(p): return [(t[0], t[1]) for t in tokenize(p)]
def key(t): return (t[0], t[1]) if t[0] in ("i", "p") else t
def normalise(toks, st):
    """erase the tokens governed by the switches"""
    pats = [("<alloc>", lex_path((st.get("alloc") or "::std").strip())), ("<compact>", lex_path(st.get("compact_path"))), ("<bits>", lex_path(st.get("bits_path")))]
    root = st.root()
    out = []; i = 0; n = len(toks)
    while i < n:
        t = toks[i]
        # attributes
        if t[0] == "p" and t[1] == "#" and i + 1 < n and toks[i+1][0] == "g" and toks[i+1][1] == "Bracket":
            inner = toks[i+1][2].t
            if inner and inner[0][0] == "i" and inner[0][1] in ("doc", "codec"): i += 2; continue
        hit = False
        for name, pat in pats:
            if pat and [key(x) for x in toks[i:i+len(pat)]] == pat and (i + len(pat) >= n or not (toks[i+len(pat)][0] == "i")):
                out.append(("i", name)); i += len(pat); hit = True; break
        if hit: continue
        if t[0] == "g": out.append(("g", t[1], TSL(normalise(t[2].t, st))))
        elif t[0] == "i" and t[1] == root: out.append(("i", "<root>"))
        else: out.append(t)
        i += 1
    return out
def flat_idents(toks):
    for t in toks:
        if t[0] == "g": yield from flat_idents(t[2].t)
        elif t[0] == "i": yield t[1]
def attr_heads(toks):
    for i, t in enumerate(toks):
        if t[0] == "g":
            if t[1] == "Bracket" and i > 0 and toks[i-1][0] == "p" and toks[i-1][1] == "#" and t[2].t and t[2].t[0][0] == "i": yield t[2].t[0][1], t[2].t
            yield from attr_heads(t[2].t)
def unquote(l):
    s = l[1:-1]; out = ""; i = 0
    while i < len(s):
        if s[i] == "\\" and i + 1 < len(s):
            out += {"n": "\n", "t": "\t", "\\": "\\", '"': '"', "'": "'", "r": "\r", "0": "\0"}.get(s[i+1], s[i+1]); i += 2
        else: out += s[i]; i += 1
    return out

def clause_problems(reg, st, toks):
    """the per-switch clauses on one output"""
    probs = []
    ids = list(flat_idents(toks))
    if st.has("alloc"):
        if "std" in ids: probs.append("custom alloc path set but `std` occurs in the output")
    heads = list(attr_heads(toks))
    if st.get("docs") == "0" and any(h == "doc" for h, _ in heads): probs.append("docs off but a doc attribute is emitted")
    if not st.has("codec_attrs") and any(h == "codec" for h, _ in heads): probs.append("codec attributes off but a codec attribute is emitted")
    try: name, module = parse_root(toks)
    except ReaderError as e: return probs + ["does not parse: %s" % e]
    items = {p: it for p, it in walk_items(module)}
    for i, t in enumerate(reg):
        if len(t["path"]) < 2 or t["def"][0] not in ("composite", "variant"): continue
        it = items.get(tuple(t["path"]))
        if it is None: continue
        if st.get("docs") != "0":
            first = next(j for j, u in enumerate(reg) if u["path"] == t["path"])
            if first == i:
                got = [unquote(x) if isinstance(x, str) else x for x in doc_lines(it["attrs"])]
                if got != t["docs"]: probs.append("docs of %s are %r, registry has %r" % ("::".join(t["path"]), got, t["docs"]))
                if t["def"][0] == "variant":
                    for v in t["def"][1]:
                        ev = next((x for x in it["variants"] if x["name"] == v["name"]), None)
                        if ev is None: continue
                        gotv = [unquote(x) if isinstance(x, str) else x for x in doc_lines(ev["attrs"])]
                        if gotv != v["docs"]: probs.append("docs of variant %s::%s are %r, registry has %r" % ("::".join(t["path"]), v["name"], gotv, v["docs"]))
        if st.has("codec_attrs") and it["kind"] == "enum":
            for ev in it["variants"]:
                if ev["name"] != "__Ignore" and codec_attr(ev["attrs"], "index") is None: probs.append("variant %s::%s lacks its codec index" % ("::".join(t["path"]), ev["name"]))
        # every compact field carries its marker with codec attributes on (and only those)
        first = next(j for j, u in enumerate(reg) if u["path"] == t["path"])
        if st.has("codec_attrs") and first == i:
            def pairs():
                if t["def"][0] == "composite": yield "", t["def"][1], (it["fields"] if it["kind"] == "struct" else [])
                else:
                    for v in t["def"][1]:
                        ev = next((x for x in it.get("variants", []) if x["name"] == v["name"]), None)
                        if ev is not None: yield "::" + v["name"], v["fields"], ev["fields"]
            for where, rf, gf in pairs():
                rf = [f for f in rf if reg[f["ty"]]["path"] != ["PhantomData"]]
                gf = [f for f in gf if f["name"] != "__ignore" and not (f["ty"][0] == "path" and f["ty"][2][-1] == "PhantomData")]
                if len(rf) != len(gf): continue
                for k, (r_, g_) in enumerate(zip(rf, gf)):
                    want = reg[r_["ty"]]["def"][0] == "compact"; got = codec_attr(g_["attrs"], "compact") is not None
                    if want != got: probs.append("field %s of %s%s: registry type is %scompact but the #[codec(compact)] marker is %s" % (r_["name"] or k, "::".join(t["path"]), where, "" if want else "not ", "present" if got else "missing"))
    # heap paths rooted at the alloc path, written exactly as configured (leading `::` or not)
    a = st.alloc_root(); lead = (st.get("alloc") or "::std").strip().startswith("::")
    for p, it in items.items():
        for ty in types_in_item(it):
            for x in walk_type(ty):
                if x[0] == "path" and x[2][-1] in ("Vec", "String", "Box", "BTreeMap", "BTreeSet", "BinaryHeap", "VecDeque", "LinkedList", "Cow") and x[2][0] != st.root() and (tuple(x[2][:len(a)]) != a or bool(x[1]) != lead):
                    probs.append("heap path %s%s is not rooted at the alloc crate path %s" % ("::" if x[1] else "", "::".join(x[2]), st.get("alloc") or "::std"))
    return probs

def make_family(name, reg0):
    combos = list(itertools.product([0, 1], repeat=len(ORDER)))
    def mk(eng): return symbolize_leaves(eng, reg0)
    def run(eng, reg):
        res = {"violations": [], "outcome": "Ok"}
        m = eng.model(); creg = concretize(reg, m)
        base = None; nval = 0
        for bits in combos:
            st = combo_settings(bits)
            out, regv, s = generate(eng, regdsl._clone(reg), st)
            case = replay_gen_case(creg, st)
            if out["result"] != "Ok":
                res["outcome"] = "Err:" + out["err"][0]
                if out["err"][0] != "DuplicateTypePath": res["violations"].append({"what": "generation fails with %s under %s" % (out["err"][0], st.d), "case": case, "kind": "err"})
                return res
            toks = concretize_tokens(out["tokens"], m)
            for p in clause_problems(creg, st, toks):
                res["violations"].append({"what": "%s [settings %s] | registry %s" % (p, st.d, "; ".join(describe(creg, 6))), "case": case, "kind": "clause"})
            nf = plain_tok_str(normalise(toks, st))
            if base is None: base = (nf, st, case)
            elif nf != base[0]:
                k = next((j for j in range(min(len(nf), len(base[0]))) if nf[j] != base[0][j]), 0)
                res["violations"].append({"what": "switches are not orthogonal: output under %s differs from output under %s beyond the governed tokens: ...%s... vs ...%s..." % (st.d, base[1].d, nf[max(0, k-60):k+60], base[0][max(0, k-60):k+60]),
                                          "case": case, "case2": base[2], "kind": "orthogonal"})
            if sum(bits) in (0, 6) or bits == (1, 0, 1, 0, 0, 1): res["validate"] = dict(case, expect={"result": "Ok", "tokens": plain_tok_str(toks)})
        res["sample"] = {"registry": describe(creg, 5), "combos": len(combos)}
        return res
    return Family(name, mk, run, target_prefixes=1)

def rename_idents(toks, a, b):
    out = []
    for t in toks:
        if t[0] == "g": out.append(("g", t[1], TSL(rename_idents(t[2].t, a, b))))
        elif t[0] == "i" and t[1] == a: out.append(("i", b))
        else: out.append(t)
    return out
PLACEHOLDER = "zz_root_placeholder"
def root_family(name, reg0, roots):
    """renaming the root module changes nothing except that identifier - also when the new name equals a path segment
    of the registry (crate / module / type name): the output under root R must equal the output under a placeholder
    root that occurs nowhere else, with the placeholder renamed to R"""
    def mk(eng): return eng.choose([(r, True) for r in roots]), eng.choose([(b, True) for b in ((0, 0), (1, 1))])
    def run(eng, ctx):
        root, (alloc, codec) = ctx
        res = {"violations": [], "outcome": "Ok"}
        extra = ([SW["alloc"][1]] if alloc else []) + ([] if codec else ["codec_attrs"]) + [SW["compact"][0], SW["bits"][0]]
        outs = []
        for r in (PLACEHOLDER, root):
            st = Settings(["mod_name " + r] + extra)
            out, _, _ = generate(eng, regdsl._clone(reg0), st)
            if out["result"] != "Ok": res["outcome"] = "Err:" + out["err"][0]; return res
            outs.append((plain_tok_str(rename_idents(out["tokens"], PLACEHOLDER, root)), st))
        case = replay_gen_case(reg0, outs[1][1]); case2 = replay_gen_case(reg0, outs[0][1])
        a, b = outs[0][0], outs[1][0]
        if a != b:
            k = next((j for j in range(min(len(a), len(b))) if a[j] != b[j]), 0)
            res["violations"].append({"what": "renaming the root module to %s changes more than the root identifier: ...%s... (placeholder root, renamed) vs ...%s..." % (root, a[max(0, k-70):k+70], b[max(0, k-70):k+70]),
                                      "case": case, "case2": case2, "kind": "rootname", "root": root})
        res["validate"] = dict(case, expect={"result": "Ok", "tokens": b})
        return res
    return Family(name, mk, run, target_prefixes=1)

ALLOC_FORMS = ["alloc crate::alloc", "alloc alloc", "alloc self::x::alloc", "alloc ::alloc", "alloc ::my::a::b", "alloc std_"]
def alloc_family(name, reg0):
    """custom alloc crate paths of every written form (with and without a leading `::`, one or several segments): the
    heap paths are rooted at the path exactly as configured, and nothing else changes"""
    def mk(eng): return eng.choose([(a, True) for a in ALLOC_FORMS]), eng.choose([(c, True) for c in (0, 1)])
    def run(eng, ctx):
        al, codec = ctx
        res = {"violations": [], "outcome": "Ok"}
        rest = ([] if codec else ["codec_attrs"]) + [SW["compact"][0], SW["bits"][0]]
        base = None
        for st in (Settings(rest), Settings([al] + rest)):
            out, _, _ = generate(eng, regdsl._clone(reg0), st)
            case = replay_gen_case(reg0, st)
            if out["result"] != "Ok": res["outcome"] = "Err:" + out["err"][0]; return res
            for p in clause_problems(reg0, st, out["tokens"]):
                res["violations"].append({"what": "%s [settings %s]" % (p, st.d), "case": case, "kind": "clause"})
            nf = plain_tok_str(normalise(out["tokens"], st))
            if base is None: base = (nf, st, case)
            elif nf != base[0]:
                k = next((j for j in range(min(len(nf), len(base[0]))) if nf[j] != base[0][j]), 0)
                res["violations"].append({"what": "switches are not orthogonal: output under %s differs from output under %s beyond the governed tokens: ...%s... vs ...%s..." % (st.d, base[1].d, nf[max(0, k-60):k+60], base[0][max(0, k-60):k+60]),
                                          "case": case, "case2": base[2], "kind": "orthogonal"})
            else: res["validate"] = dict(case, expect={"result": "Ok", "tokens": plain_tok_str(out["tokens"])})
        return res
    return Family(name, mk, run, target_prefixes=1)

def families(eng, tier, seed):
    C = corpus(); fams = []
    for n in (("collections", "containers", "rec") if tier == "quick" else [k for k in C if len(C[k]) <= 40]): fams.append(alloc_family("allocforms-" + n, C[n]))
    for n in (("enum", "modules", "generics") if tier == "quick" else [k for k in C if len(C[k]) <= 40]):
        r = C[n]; segs = []
        for t in r:
            for sgm in t["path"]:
                if sgm not in segs: segs.append(sgm)
        roots = [x for x in segs if x.isidentifier() and x not in ("Option", "Result")][: (6 if tier == "quick" else 12)] + ["types_", "r#type"[:0] + "core", "alloc", "std"]
        fams.append(root_family("rootname-" + n, r, roots))
    for n, r in C.items():
        if tier == "quick" and len(r) > 20 and n != "generics": continue
        fams.append(make_family("switches-" + n, r))
    return fams

def confirm(v, real):
    if "panic" in real: return True
    case = v["case"]; st = Settings(case["set"]); reg = regdsl.decode(bytes.fromhex(case["reg"]))
    if v["kind"] == "err": return real.get("result") == "Err" and real.get("err_variant") != "DuplicateTypePath"
    if real.get("result") != "Ok": return False
    toks = tokenize(real["tokens"])
    if v["kind"] == "clause": return bool(clause_problems(reg, st, toks))
    if v["kind"] == "rootname":
        r2 = run_replay([v["case2"]])[0]
        if r2.get("result") != "Ok": return False
        return plain_tok_str(rename_idents(tokenize(r2["tokens"]), PLACEHOLDER, v["root"])) != plain_tok_str(toks)
    if v["kind"] == "orthogonal":
        r2 = run_replay([v["case2"]])[0]
        if r2.get("result") != "Ok": return False
        return plain_tok_str(normalise(toks, st)) != plain_tok_str(normalise(tokenize(r2["tokens"]), Settings(v["case2"]["set"])))
    return False
def classify(v):
    w = v["what"]
    for k in ("`std` occurs", "doc attribute is emitted", "codec attribute is emitted", "docs of", "lacks its codec index", "not rooted at the alloc", "not orthogonal", "generation fails", "renaming the root"):
        if k in w: return k
    return "other"

if __name__ == "__main__":
    main(sys.modules[__name__])
